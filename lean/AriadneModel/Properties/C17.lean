/-
  C17 — Invalid input is rejected up front, with a typed error and no side effects.

  Statements and final proofs.  Models: Model/Toml.lean (TOML values of every kind and the Python
  operations applied to them), Model/Settings.lean (settings.py + config.py), Model/SourceLoad.lean
  (schema.py: file or directory tree -> one document), Model/ConfigFile.lean (config.get_config_file_path),
  Model/Pipeline.lean (phase order of main.client / main.graphql_schema with an effect log, plugin
  lookup; graphql-core's verdicts are oracle inputs).  Lemmas: Proofs/Settings.lean, Proofs/SourceLoad.lean,
  Proofs/Pipeline.lean.

  Shape (DESIGN.md §0):  `C17_full` is the property at full strength, `C17_full_false` refutes it
  from witnesses (one per open finding, each replayed on the real code by harness/c17.py),
  `C17_partial` proves it outside the finding triggers.  The settings clauses
  (`violation_raises`, `violation_typed`, `valid_accepted`, `accepted_iff_documented`,
  `unknown_keys_ignored`, `settings_pure`) hold for option values of EVERY TOML kind; the phase clause
  (`no_write_before_generate`) and the per-file syntax clause (`source_refused_iff_some_file_bad`) hold
  for all inputs, all directory trees and every `parses`.
-/
import AriadneModel.Model.Settings
import AriadneModel.Model.SourceLoad
import AriadneModel.Model.ConfigFile
import AriadneModel.Model.Pipeline
import AriadneModel.Proofs.Settings
import AriadneModel.Proofs.SourceLoad
import AriadneModel.Proofs.Pipeline

set_option linter.unusedSimpArgs false
set_option linter.unusedVariables false

namespace Ariadne.C17
open Ariadne Ariadne.Settings Ariadne.SourceLoad Ariadne.Pipeline

/-! ## 1. Every documented single-constraint violation yields its exception (client settings),
       for option values of every kind -/

/-- a flag value that selects a bundled base client: equal to `True` or `False` as a dict key
    (booleans, but also 0 / 1 / 0.0 / 1.0) -/
def BoolLike (v : TV) : Prop := ∃ b, v.boolKey = some (some b)

/-- the constraint guarded by check `k` is violated (stated on the dataclass fields, the file
    system, the environment — not on the model's check functions) -/
def Violates (env : Env) (s : ClientSettings) : ClientCheck → Prop
  | .queriesRequired => s.queriesPath.truthy = false ∧ s.enableCustomOperations.truthy = false
  | .schemaSource => s.schemaPath.truthy = false ∧ s.remoteSchemaUrl.truthy = false
  | .schemaPathExists => s.schemaPath.truthy = true ∧ ¬ IsPath env.pathExists s.schemaPath
  | .headers => ¬ HeadersOk env s.remoteSchemaHeaders
  | .commentMode => isCommentMode s.includeComments = false
  | .baseClientDefaults =>
      s.baseClientName.truthy = false ∧ s.baseClientFilePath.truthy = false ∧
        ¬ (BoolLike s.asyncClient ∧ BoolLike s.opentelemetryClient)
  | .queriesPathExists => ¬ IsPath env.pathExists s.queriesPath
  | .packageName => ¬ IsName env s.targetPackageName
  | .packagePathDir => ¬ IsPath env.isDir s.targetPackagePath
  | .clientName => ¬ IsName env s.clientName
  | .clientFileName => ¬ IsName env s.clientFileName
  | .baseClientName => ¬ IsName env (baseClientData env s).1
  | .baseClientPathExists => ¬ IsPath env.pathExists (baseClientData env s).2
  | .baseClientIsFile => ¬ IsPath env.isFile (baseClientData env s).2
  | .baseClientClass =>
      ¬ IsPath (fun p => classDefinedIn env p (baseClientData env s).1.pyStr) (baseClientData env s).2
  | .enumsModule => ¬ IsName env s.enumsModuleName
  | .inputTypesModule => ¬ IsName env s.inputTypesModuleName
  | .fragmentsModule => ¬ IsName env s.fragmentsModuleName
  | .filesToInclude => ¬ FilesOk env s.filesToInclude

/-- what a failing path check raises: the path exception naming the `str`, or — for a value that is
    not a `str` — `Path(v)`'s `TypeError`, which config.py reports as `MissingConfiguration` -/
def PathExpected (missing : List String) (err : String → ConfigError) (v : TV) (e : ConfigError) : Prop :=
  (∃ p, v = .str p ∧ e = err p) ∨ (v.isStr = false ∧ e = .typeErrorAsMissing missing)

/-- what a failing name check raises: the identifier exception naming the `str`, or — for a value
    that is not a `str` — a bare `AttributeError` -/
def NameExpected (v : TV) (e : ConfigError) : Prop :=
  (∃ n, v = .str n ∧ e = .badIdentifier n) ∨ (v.isStr = false ∧ e = .internal "AttributeError")

/-- the exception that corresponds to check `k` (it names the offending value) -/
def Expected (env : Env) (s : ClientSettings) : ClientCheck → ConfigError → Prop
  | .queriesRequired, e => e = .missingFields s.missing
  | .schemaSource, e => e = .noSchemaSource
  | .schemaPathExists, e => PathExpected s.missing .pathMissing s.schemaPath e
  | .headers, e =>
      (∃ kvs, s.remoteSchemaHeaders = .table kvs ∧ HeaderErrorOf kvs e) ∨
      (s.remoteSchemaHeaders.isTable = false ∧ e = .internal "AttributeError")
  | .commentMode, e => e = .badCommentMode s.includeComments.pyStr
  | .baseClientDefaults, e => e = .internal "KeyError" ∨ e = .typeErrorAsMissing s.missing
  | .queriesPathExists, e => PathExpected s.missing .pathMissing s.queriesPath e
  | .packageName, e => NameExpected s.targetPackageName e
  | .packagePathDir, e => PathExpected s.missing .notDirectory s.targetPackagePath e
  | .clientName, e => NameExpected s.clientName e
  | .clientFileName, e => NameExpected s.clientFileName e
  | .baseClientName, e => NameExpected (baseClientData env s).1 e
  | .baseClientPathExists, e => PathExpected s.missing .pathMissing (baseClientData env s).2 e
  | .baseClientIsFile, e => PathExpected s.missing .notFile (baseClientData env s).2 e
  | .baseClientClass, e =>
      PathExpected s.missing (fun p => .classNotInFile (baseClientData env s).1.pyStr p) (baseClientData env s).2 e
  | .enumsModule, e => NameExpected s.enumsModuleName e
  | .inputTypesModule, e => NameExpected s.inputTypesModuleName e
  | .fragmentsModule, e => NameExpected s.fragmentsModuleName e
  | .filesToInclude, e =>
      (s.filesToInclude.pyIter = none ∧ e = .typeErrorAsMissing s.missing) ∨
      (∃ items, s.filesToInclude.pyIter = some items ∧ FileErrorOf env s.missing items e)

theorem defaults_raises_iff (s : ClientSettings) :
    (defaultsOutcome s = .keyError ∨ defaultsOutcome s = .typeError) ↔
      (s.baseClientName.truthy = false ∧ s.baseClientFilePath.truthy = false ∧
        ¬ (BoolLike s.asyncClient ∧ BoolLike s.opentelemetryClient)) := by
  unfold defaultsOutcome BoolLike
  cases hn : s.baseClientName.truthy <;> cases hp : s.baseClientFilePath.truthy <;> simp
  rcases ha : s.asyncClient.boolKey with _ | _ | a <;> rcases ho : s.opentelemetryClient.boolKey with _ | _ | o <;> simp

/-- a check raises exactly when its constraint is violated -/
theorem check_raises_iff (env : Env) (s : ClientSettings) (k : ClientCheck) :
    (∃ e, evalClientCheck env s k = some e) ↔ Violates env s k := by
  cases k <;> simp only [evalClientCheck, Violates]
  case queriesRequired => cases s.queriesPath.truthy <;> cases s.enableCustomOperations.truthy <;> simp
  case schemaSource => cases s.schemaPath.truthy <;> cases s.remoteSchemaUrl.truthy <;> simp
  case schemaPathExists =>
    cases ht : s.schemaPath.truthy
    · simp
    · simp only [if_true, true_and]; exact pathCheck_some_iff _ _ _ _
  case headers =>
    rw [← firstBadHeaderV_none_iff]
    cases firstBadHeaderV env s.remoteSchemaHeaders <;> simp
  case commentMode => cases isCommentMode s.includeComments <;> simp
  case baseClientDefaults =>
    rw [← defaults_raises_iff]
    cases defaultsOutcome s <;> simp
  case queriesPathExists => exact pathCheck_some_iff _ _ _ _
  case packageName => exact identCheckV_some_iff env _
  case packagePathDir => exact pathCheck_some_iff _ _ _ _
  case clientName => exact identCheckV_some_iff env _
  case clientFileName => exact identCheckV_some_iff env _
  case baseClientName => exact identCheckV_some_iff env _
  case baseClientPathExists => exact pathCheck_some_iff _ _ _ _
  case baseClientIsFile => exact pathCheck_some_iff _ _ _ _
  case baseClientClass => exact pathCheck_some_iff _ _ _ _
  case enumsModule => exact identCheckV_some_iff env _
  case inputTypesModule => exact identCheckV_some_iff env _
  case fragmentsModule => exact identCheckV_some_iff env _
  case filesToInclude =>
    unfold FilesOk
    cases hi : s.filesToInclude.pyIter with
    | none => simp
    | some items =>
      simp only [Option.some.injEq, exists_eq_left']
      rw [← firstNonFileV_none_iff env s.missing]
      cases firstNonFileV env s.missing items <;> simp

theorem pathExpected_of (missing : List String) (test : String → Bool) (err : String → ConfigError) (v : TV)
    (e : ConfigError) (h : pathCheck missing test err v = some e) : PathExpected missing err v e := by
  rcases pathCheck_eq missing test err v e h with ⟨p, hv, _, he⟩ | h2
  · exact Or.inl ⟨p, hv, he⟩
  · exact Or.inr h2

/-- what a check raises is the corresponding exception, carrying the offending value -/
theorem check_error_expected (env : Env) (s : ClientSettings) (k : ClientCheck) (e : ConfigError)
    (h : evalClientCheck env s k = some e) : Expected env s k e := by
  cases k <;> simp only [evalClientCheck, Expected] at h ⊢
  case queriesRequired => split at h <;> simp_all
  case schemaSource => split at h <;> simp_all
  case schemaPathExists =>
    split at h
    · exact pathExpected_of _ _ _ _ _ h
    · cases h
  case headers => exact firstBadHeaderV_some env _ e h
  case commentMode => split at h <;> simp_all
  case baseClientDefaults =>
    split at h
    · left; simp_all
    · right; simp_all
    · cases h
  case queriesPathExists => exact pathExpected_of _ _ _ _ _ h
  case packageName => exact identCheckV_eq env _ e h
  case packagePathDir => exact pathExpected_of _ _ _ _ _ h
  case clientName => exact identCheckV_eq env _ e h
  case clientFileName => exact identCheckV_eq env _ e h
  case baseClientName => exact identCheckV_eq env _ e h
  case baseClientPathExists => exact pathExpected_of _ _ _ _ _ h
  case baseClientIsFile => exact pathExpected_of _ _ _ _ _ h
  case baseClientClass => exact pathExpected_of _ _ _ _ _ h
  case enumsModule => exact identCheckV_eq env _ e h
  case inputTypesModule => exact identCheckV_eq env _ e h
  case fragmentsModule => exact identCheckV_eq env _ e h
  case filesToInclude =>
    cases hi : s.filesToInclude.pyIter with
    | none => simp [hi] at h; exact Or.inl ⟨rfl, h.symm⟩
    | some items =>
      simp only [hi] at h
      exact Or.inr ⟨items, rfl, firstNonFileV_some env s.missing items e h⟩

/-- **violation_raises** (must), for values of every kind: if the constraint of check `k` is violated
    and no earlier check of `__post_init__` fires, the settings are rejected with the exception of `k`
    (`Expected`: it names the offending value; for a value of the wrong kind it says which Python
    exception that is). -/
theorem violation_raises (env : Env) (s : ClientSettings) (k : ClientCheck) (pre post : List ClientCheck)
    (hord : ClientCheck.order = pre ++ k :: post)
    (hk : Violates env s k) (hpre : ∀ k' ∈ pre, ¬ Violates env s k') :
    ∃ e, clientPostInit env s = .error e ∧ Expected env s k e := by
  obtain ⟨e, he⟩ := (check_raises_iff env s k).mpr hk
  refine ⟨e, ?_, check_error_expected env s k e he⟩
  have hnone : ∀ k' ∈ pre, evalClientCheck env s k' = none := by
    intro k' hk'
    cases hc : evalClientCheck env s k' with
    | none => rfl
    | some e' => exact absurd ((check_raises_iff env s k').mp ⟨e', hc⟩) (hpre k' hk')
  unfold clientPostInit
  rw [hord, firstError_append_some (evalClientCheck env s) pre post k e he hnone]

/-! ### option values of the documented kinds: every rejection is an ariadne-codegen exception -/

def strList : TV → Bool
  | .list xs => xs.all TV.isStr
  | _ => false

def strTable : TV → Bool
  | .table kvs => kvs.all (fun kv => kv.2.isStr)
  | _ => false

/-- the fields of the dataclass hold values of the kinds its annotations name -/
structure WellTyped (s : ClientSettings) : Prop where
  schemaPath : s.schemaPath.isStr = true
  headers : strTable s.remoteSchemaHeaders = true
  queriesPath : s.queriesPath.isStr = true
  packageName : s.targetPackageName.isStr = true
  packagePath : s.targetPackagePath.isStr = true
  clientName : s.clientName.isStr = true
  clientFileName : s.clientFileName.isStr = true
  baseClientName : s.baseClientName.isStr = true
  baseClientPath : s.baseClientFilePath.isStr = true
  enumsModule : s.enumsModuleName.isStr = true
  inputTypesModule : s.inputTypesModuleName.isStr = true
  fragmentsModule : s.fragmentsModuleName.isStr = true
  asyncClient : s.asyncClient.isBool = true
  otelClient : s.opentelemetryClient.isBool = true
  files : strList s.filesToInclude = true

theorem pathExpected_typed (missing : List String) (err : String → ConfigError) (v : TV) (e : ConfigError)
    (hv : v.isStr = true) (herr : ∀ p, (err p).typed = true) (h : PathExpected missing err v e) : e.typed = true := by
  rcases h with ⟨p, _, rfl⟩ | ⟨hn, _⟩
  · exact herr p
  · rw [hv] at hn; cases hn

theorem nameExpected_typed (v : TV) (e : ConfigError) (hv : v.isStr = true) (h : NameExpected v e) : e.typed = true := by
  rcases h with ⟨p, _, rfl⟩ | ⟨hn, _⟩
  · rfl
  · rw [hv] at hn; cases hn

theorem baseClientData_isStr (env : Env) (s : ClientSettings) (hn : s.baseClientName.isStr = true)
    (hp : s.baseClientFilePath.isStr = true) :
    (baseClientData env s).1.isStr = true ∧ (baseClientData env s).2.isStr = true := by
  unfold baseClientData
  cases defaultsOutcome s
  case pick kind => exact ⟨rfl, rfl⟩
  all_goals exact ⟨hn, hp⟩

/-- with well-typed fields every exception a check raises is an ariadne-codegen exception class
    (`InvalidConfiguration`, or `MissingConfiguration` for the missing `queries_path`) -/
theorem check_error_typed (env : Env) (s : ClientSettings) (hw : WellTyped s) (k : ClientCheck) (e : ConfigError)
    (h : evalClientCheck env s k = some e) : e.typed = true := by
  have hx := check_error_expected env s k e h
  have hb := baseClientData_isStr env s hw.baseClientName hw.baseClientPath
  cases k <;> simp only [Expected] at hx
  case queriesRequired => subst hx; rfl
  case schemaSource => subst hx; rfl
  case schemaPathExists => exact pathExpected_typed _ _ _ _ hw.schemaPath (fun _ => rfl) hx
  case headers =>
    have hh := hw.headers
    rcases hx with ⟨kvs, hk, kv, hm, hkv⟩ | ⟨hn, _⟩
    · rw [hk] at hh
      simp only [strTable, List.all_eq_true] at hh
      rcases hkv with ⟨x, _, rfl⟩ | ⟨hns, _⟩
      · rfl
      · rw [hh kv hm] at hns; cases hns
    · cases hv : s.remoteSchemaHeaders <;> simp [hv, strTable, TV.isTable] at hh hn
  case commentMode => subst hx; rfl
  case baseClientDefaults =>
    -- boolean flags always select a bundled client
    exfalso
    have hv : Violates env s .baseClientDefaults := (check_raises_iff env s .baseClientDefaults).mp ⟨e, h⟩
    simp only [Violates] at hv
    apply hv.2.2
    have ha := hw.asyncClient
    have ho := hw.otelClient
    cases hva : s.asyncClient <;> simp [hva, TV.isBool] at ha
    cases hvo : s.opentelemetryClient <;> simp [hvo, TV.isBool] at ho
    exact ⟨⟨_, rfl⟩, ⟨_, rfl⟩⟩
  case queriesPathExists => exact pathExpected_typed _ _ _ _ hw.queriesPath (fun _ => rfl) hx
  case packageName => exact nameExpected_typed _ _ hw.packageName hx
  case packagePathDir => exact pathExpected_typed _ _ _ _ hw.packagePath (fun _ => rfl) hx
  case clientName => exact nameExpected_typed _ _ hw.clientName hx
  case clientFileName => exact nameExpected_typed _ _ hw.clientFileName hx
  case baseClientName => exact nameExpected_typed _ _ hb.1 hx
  case baseClientPathExists => exact pathExpected_typed _ _ _ _ hb.2 (fun _ => rfl) hx
  case baseClientIsFile => exact pathExpected_typed _ _ _ _ hb.2 (fun _ => rfl) hx
  case baseClientClass => exact pathExpected_typed _ _ _ _ hb.2 (fun _ => rfl) hx
  case enumsModule => exact nameExpected_typed _ _ hw.enumsModule hx
  case inputTypesModule => exact nameExpected_typed _ _ hw.inputTypesModule hx
  case fragmentsModule => exact nameExpected_typed _ _ hw.fragmentsModule hx
  case filesToInclude =>
    have hf := hw.files
    cases hv : s.filesToInclude <;> simp [hv, strList] at hf
    case list xs =>
      rw [hv] at hx
      simp only [TV.pyIter, reduceCtorEq, false_and, Option.some.injEq, exists_eq_left', false_or] at hx
      obtain ⟨f, hm, hh⟩ := hx
      rcases hh with ⟨p, _, _, rfl⟩ | ⟨hns, _⟩
      · rfl
      · have := hf f hm
        rw [this] at hns; cases hns

/-- **violation_typed** (must): for option values of the documented kinds, a violated constraint whose
    predecessors hold is rejected with the corresponding ariadne-codegen exception class -/
theorem violation_typed (env : Env) (s : ClientSettings) (hw : WellTyped s) (k : ClientCheck) (pre post : List ClientCheck)
    (hord : ClientCheck.order = pre ++ k :: post)
    (hk : Violates env s k) (hpre : ∀ k' ∈ pre, ¬ Violates env s k') :
    ∃ e, clientPostInit env s = .error e ∧ Expected env s k e ∧ e.typed = true := by
  obtain ⟨e, he, hx⟩ := violation_raises env s k pre post hord hk hpre
  refine ⟨e, he, hx, ?_⟩
  obtain ⟨e', he'⟩ := (check_raises_iff env s k).mpr hk
  have hnone : ∀ k' ∈ pre, evalClientCheck env s k' = none := by
    intro k' hk'
    cases hc : evalClientCheck env s k' with
    | none => rfl
    | some e2 => exact absurd ((check_raises_iff env s k').mp ⟨e2, hc⟩) (hpre k' hk')
  have : clientPostInit env s = .error e' := by
    unfold clientPostInit
    rw [hord, firstError_append_some (evalClientCheck env s) pre post k e' he' hnone]
  rw [this] at he
  injection he with he
  subst he
  exact check_error_typed env s hw k _ he'

/-- non-vacuity of `violation_typed`: a keyword as client name with everything else in order -/
def exEnv : Env := {
  pathExists := fun _ => true, isDir := fun _ => true, isFile := fun _ => true,
  readText := fun _ => "class AsyncBaseClient:", environ := fun _ => none, isIdent := fun _ => true,
  cwd := "/w", defaultPath := fun k => k }
def exSettings : ClientSettings :=
  { schemaPath := "s.graphql", queriesPath := "q.graphql", targetPackagePath := "/w", clientName := "class" }
example : clientPostInit exEnv exSettings = .error (.badIdentifier "class") := by decide
example : WellTyped exSettings := by constructor <;> decide

/-- the Python `1 == True` trap, at the level of `__post_init__`: the NUMBER 1 as comment mode is an
    unknown comment mode (`CommentsStrategy(1)` raises), while as a FLAG it selects the async client -/
example : clientPostInit exEnv { exSettings with clientName := "Client", includeComments := .int 1 } =
    .error (.badCommentMode "1") := by decide
example : clientPostInit exEnv { exSettings with clientName := "Client", includeComments := .float "1.0" } =
    .error (.badCommentMode "1.0") := by decide
example : (clientPostInit exEnv { exSettings with clientName := "Client", asyncClient := .int 1, opentelemetryClient := .float "0.0" }).toOption.map
    (·.baseClientName) = some (.str "AsyncBaseClient") := by decide
example : clientPostInit exEnv { exSettings with clientName := "Client", asyncClient := .int 2 } = .error (.internal "KeyError") := by decide
example : clientPostInit exEnv { exSettings with clientName := .int 5 } = .error (.internal "AttributeError") := by decide

/-- conversely every rejection comes from a violated constraint all of whose predecessors hold -/
theorem rejection_is_a_violation (env : Env) (s : ClientSettings) (e : ConfigError)
    (h : clientPostInit env s = .error e) :
    ∃ pre k post, ClientCheck.order = pre ++ k :: post ∧ Violates env s k ∧ Expected env s k e ∧
      ∀ k' ∈ pre, ¬ Violates env s k' := by
  unfold clientPostInit at h
  cases hf : firstError (evalClientCheck env s) ClientCheck.order with
  | none => simp [hf] at h
  | some e' =>
    simp [hf] at h
    subst h
    obtain ⟨pre, k, post, hs, hk, hpre⟩ := firstError_some_split _ _ _ hf
    refine ⟨pre, k, post, hs, (check_raises_iff env s k).mp ⟨_, hk⟩, check_error_expected env s k _ hk, ?_⟩
    intro k' hk' hv
    obtain ⟨e2, he2⟩ := (check_raises_iff env s k').mpr hv
    rw [hpre k' hk'] at he2
    cases he2

/-! ## 2. Every configuration meeting the constraints is accepted -/

theorem mem_order (k : ClientCheck) : k ∈ ClientCheck.order := by cases k <;> decide

/-- **valid_accepted** (must): when no constraint is violated the settings are accepted -/
theorem valid_accepted (env : Env) (s : ClientSettings) (h : ∀ k, ¬ Violates env s k) :
    clientPostInit env s = .ok (finalizeClient env s) := by
  have : firstError (evalClientCheck env s) ClientCheck.order = none := by
    rw [firstError_none_iff]
    intro k _
    cases hc : evalClientCheck env s k with
    | none => rfl
    | some e => exact absurd ((check_raises_iff env s k).mp ⟨e, hc⟩) (h k)
  simp [clientPostInit, this]

theorem accepted_iff (env : Env) (s : ClientSettings) :
    (∃ s', clientPostInit env s = .ok s') ↔ ∀ k, ¬ Violates env s k := by
  constructor
  · rintro ⟨s', hs'⟩ k hv
    unfold clientPostInit at hs'
    cases hf : firstError (evalClientCheck env s) ClientCheck.order with
    | some e => simp [hf] at hs'
    | none =>
      obtain ⟨e, he⟩ := (check_raises_iff env s k).mpr hv
      rw [(firstError_none_iff _ _).mp hf k (mem_order k)] at he
      cases he
  · intro h; exact ⟨_, valid_accepted env s h⟩

example : clientPostInit exEnv { exSettings with clientName := "Client" } =
    .ok (finalizeClient exEnv { exSettings with clientName := "Client" }) := by decide

/-- The DOCUMENTED constraints of the client strategy (README option table + property text), read
    on values of every kind: a path is a `str` naming something that exists, a name is a `str` usable as
    an identifier, a comment mode is one of the three strings, headers are a table of resolvable `str`s,
    "given" is Python's truthiness.  One of them is stronger than what the code tests: the base
    client class must be declared in the file (not merely occur as a substring; finding C17-F7).
    Options the property names no constraint for (the remaining flags, `remote_schema_url` when a path is
    given, `plugins`, `remote_schema_verify_ssl`) do not occur. -/
structure Documented (env : Env) (s : ClientSettings) : Prop where
  queries : s.queriesPath.truthy = true ∨ s.enableCustomOperations.truthy = true
  source : s.schemaPath.truthy = true ∨ s.remoteSchemaUrl.truthy = true
  schemaPath : s.schemaPath.truthy = true → IsPath env.pathExists s.schemaPath
  headers : HeadersOk env s.remoteSchemaHeaders
  comments : isCommentMode s.includeComments = true
  bundled : s.baseClientName.truthy = false → s.baseClientFilePath.truthy = false →
      BoolLike s.asyncClient ∧ BoolLike s.opentelemetryClient
  queriesPath : IsPath env.pathExists s.queriesPath
  packageName : IsName env s.targetPackageName
  packagePath : IsPath env.isDir s.targetPackagePath
  clientName : IsName env s.clientName
  clientFileName : IsName env s.clientFileName
  baseClientName : IsName env (baseClientData env s).1
  baseClientPath : IsPath env.pathExists (baseClientData env s).2
  baseClientFile : IsPath env.isFile (baseClientData env s).2
  baseClientClass : IsPath (fun p => classDeclared env p (baseClientData env s).1.pyStr) (baseClientData env s).2
  enumsModule : IsName env s.enumsModuleName
  inputTypesModule : IsName env s.inputTypesModuleName
  fragmentsModule : IsName env s.fragmentsModuleName
  files : FilesOk env s.filesToInclude

theorem isPath_mono (t1 t2 : String → Bool) (v : TV) (h : ∀ p, t1 p = true → t2 p = true) (hp : IsPath t1 v) : IsPath t2 v := by
  obtain ⟨p, hv, ht⟩ := hp
  exact ⟨p, hv, h p ht⟩

theorem documented_no_violation (env : Env) (s : ClientSettings) (d : Documented env s) (k : ClientCheck) :
    ¬ Violates env s k := by
  cases k <;> simp only [Violates]
  case queriesRequired => rintro ⟨h1, h2⟩; rcases d.queries with h | h <;> simp_all
  case schemaSource => rintro ⟨h1, h2⟩; rcases d.source with h | h <;> simp_all
  case schemaPathExists => rintro ⟨h1, h2⟩; exact h2 (d.schemaPath h1)
  case headers => exact fun h => h d.headers
  case commentMode => have := d.comments; simp_all
  case baseClientDefaults => rintro ⟨h1, h2, h3⟩; exact h3 (d.bundled h1 h2)
  case queriesPathExists => exact fun h => h d.queriesPath
  case packageName => exact fun h => h d.packageName
  case packagePathDir => exact fun h => h d.packagePath
  case clientName => exact fun h => h d.clientName
  case clientFileName => exact fun h => h d.clientFileName
  case baseClientName => exact fun h => h d.baseClientName
  case baseClientPathExists => exact fun h => h d.baseClientPath
  case baseClientIsFile => exact fun h => h d.baseClientFile
  case baseClientClass =>
    exact fun h => h (isPath_mono _ _ _ (fun p hp => classDeclared_imp_definedIn env p _ hp) d.baseClientClass)
  case enumsModule => exact fun h => h d.enumsModule
  case inputTypesModule => exact fun h => h d.inputTypesModule
  case fragmentsModule => exact fun h => h d.fragmentsModule
  case filesToInclude => exact fun h => h d.files

/-- every configuration meeting the documented constraints is accepted -/
theorem documented_accepted (env : Env) (s : ClientSettings) (d : Documented env s) :
    clientPostInit env s = .ok (finalizeClient env s) :=
  valid_accepted env s (documented_no_violation env s d)

def badEnv : Env := { exEnv with isIdent := fun n => n != "not-valid" }
def badSettings : ClientSettings := { exSettings with clientName := "Client", fragmentsModuleName := "not-valid" }

/-- regression for the repaired finding C17-F2, at the level of `__post_init__`: the old witness
    (`fragments_module_name = "not-valid"`, everything else in order) is rejected with the
    identifier exception naming the value -/
theorem F2_settings_now_rejected :
    clientPostInit badEnv badSettings = .error (.badIdentifier "not-valid") := by decide

/-- `__post_init__` as it was BEFORE /repo 0686a80 (the check of `fragments_module_name` absent).
    Kept only to document what a regression looks like; nothing else refers to it. -/
def orderBefore0686a80 : List ClientCheck := ClientCheck.order.filter (· != .fragmentsModule)
def clientPostInitBefore0686a80 (env : Env) (s : ClientSettings) : Except ConfigError ClientSettings :=
  match firstError (evalClientCheck env s) orderBefore0686a80 with
  | some e => .error e
  | none => .ok (finalizeClient env s)

/-- the old code accepted the witness although it violates a documented constraint (what C17-F2 was) -/
theorem before_0686a80_accepted_undocumented :
    (∃ s', clientPostInitBefore0686a80 badEnv badSettings = .ok s') ∧ ¬ Documented badEnv badSettings := by
  refine ⟨⟨finalizeClient badEnv badSettings, by decide⟩, fun d => ?_⟩
  obtain ⟨n, hn, hv⟩ := d.fragmentsModule
  have : n = "not-valid" := by
    have h : badSettings.fragmentsModuleName = TV.str "not-valid" := rfl
    rw [h] at hn; injection hn with hn; exact hn.symm
  subst this
  revert hv
  decide

def prefEnv : Env := { exEnv with readText := fun _ => "class MyBaseClient:" }
def prefSettings : ClientSettings :=
  { exSettings with clientName := "Client", baseClientName := "MyBase", baseClientFilePath := "/w/custom_base.py" }

/-- ... but the converse still fails: the code accepts a configuration that violates a documented
    constraint (finding C17-F7; C17-F2 was the other such case until /repo 0686a80). -/
theorem accepted_not_documented :
    ¬ (∀ env s, (∃ s', clientPostInit env s = .ok s') → Documented env s) := by
  intro h
  have d := h prefEnv prefSettings ⟨finalizeClient prefEnv prefSettings, by decide⟩
  obtain ⟨p, hp, hv⟩ := d.baseClientClass
  have h2 : (baseClientData prefEnv prefSettings).2 = TV.str "/w/custom_base.py" := by decide
  rw [h2] at hp
  injection hp with hp
  subst hp
  revert hv
  decide

theorem documented_of_no_violation (env : Env) (s : ClientSettings) (h : ∀ k, ¬ Violates env s k)
    (hc : ∀ p, (baseClientData env s).2 = .str p → classDefinedIn env p (baseClientData env s).1.pyStr = true →
            classDeclared env p (baseClientData env s).1.pyStr = true) : Documented env s where
  queries := by
    have := h .queriesRequired; simp only [Violates] at this
    cases hq : s.queriesPath.truthy
    · right
      cases he : s.enableCustomOperations.truthy
      · exact absurd ⟨hq, he⟩ this
      · rfl
    · exact Or.inl rfl
  source := by
    have := h .schemaSource; simp only [Violates] at this
    cases hq : s.schemaPath.truthy
    · right
      cases he : s.remoteSchemaUrl.truthy
      · exact absurd ⟨hq, he⟩ this
      · rfl
    · exact Or.inl rfl
  schemaPath := by
    intro hne
    have := h .schemaPathExists; simp only [Violates] at this
    exact Classical.byContradiction fun hn => this ⟨hne, hn⟩
  headers := by have := h .headers; simp only [Violates] at this; exact Classical.byContradiction this
  comments := by have := h .commentMode; simp only [Violates] at this; simpa using this
  bundled := by
    intro h1 h2
    have := h .baseClientDefaults; simp only [Violates] at this
    exact Classical.byContradiction fun hn => this ⟨h1, h2, hn⟩
  queriesPath := by have := h .queriesPathExists; simp only [Violates] at this; exact Classical.byContradiction this
  packageName := by have := h .packageName; simp only [Violates] at this; exact Classical.byContradiction this
  packagePath := by have := h .packagePathDir; simp only [Violates] at this; exact Classical.byContradiction this
  clientName := by have := h .clientName; simp only [Violates] at this; exact Classical.byContradiction this
  clientFileName := by have := h .clientFileName; simp only [Violates] at this; exact Classical.byContradiction this
  baseClientName := by have := h .baseClientName; simp only [Violates] at this; exact Classical.byContradiction this
  baseClientPath := by have := h .baseClientPathExists; simp only [Violates] at this; exact Classical.byContradiction this
  baseClientFile := by have := h .baseClientIsFile; simp only [Violates] at this; exact Classical.byContradiction this
  baseClientClass := by
    have := h .baseClientClass; simp only [Violates] at this
    obtain ⟨p, hp, hdef⟩ := Classical.byContradiction this
    exact ⟨p, hp, hc p hp hdef⟩
  enumsModule := by have := h .enumsModule; simp only [Violates] at this; exact Classical.byContradiction this
  inputTypesModule := by have := h .inputTypesModule; simp only [Violates] at this; exact Classical.byContradiction this
  fragmentsModule := by have := h .fragmentsModule; simp only [Violates] at this; exact Classical.byContradiction this
  files := by have := h .filesToInclude; simp only [Violates] at this; exact Classical.byContradiction this

/-- **accepted_iff_documented**, for option values of EVERY kind at every option: with C17-F2 repaired,
    acceptance by `__post_init__` and the documented constraints differ ONLY by finding C17-F7 — where
    the base client class is really declared in the file, the settings are accepted exactly when every
    documented constraint holds.  (`s` ranges over dataclasses whose fields hold arbitrary `TV`s: a number
    as comment mode is not a comment mode, a number as name is not a name, a list as path is not a path.) -/
theorem accepted_iff_documented (env : Env) (s : ClientSettings)
    (hc : ∀ p, (baseClientData env s).2 = .str p → classDefinedIn env p (baseClientData env s).1.pyStr = true →
            classDeclared env p (baseClientData env s).1.pyStr = true) :
    (∃ s', clientPostInit env s = .ok s') ↔ Documented env s := by
  constructor
  · intro h
    exact documented_of_no_violation env s ((accepted_iff env s).mp h) hc
  · intro d; exact ⟨_, documented_accepted env s d⟩

theorem exEnv_class_declared (cls : String) (p : String) : classDeclared exEnv p cls = classDeclared exEnv "" cls := rfl

example : Documented exEnv { exSettings with clientName := "Client" } :=
  (accepted_iff_documented exEnv _ (by intro p _ _; rw [exEnv_class_declared]; decide)).mp
    ⟨finalizeClient exEnv { exSettings with clientName := "Client" }, by decide⟩

/-- for each option that carries a documented constraint and each kind of value other than the
    documented one, the settings are NOT accepted (corollaries of `accepted_iff`, one per constraint class) -/
theorem comment_mode_must_be_a_mode (env : Env) (s : ClientSettings) (h : isCommentMode s.includeComments = false) :
    ∀ s', clientPostInit env s ≠ .ok s' := by
  intro s' hs
  exact (accepted_iff env s).mp ⟨s', hs⟩ .commentMode (by simpa [Violates] using h)

/-- numbers, lists and tables are never comment modes (in particular 1, 0, 1.0, 0.0) -/
theorem non_str_is_no_comment_mode (v : TV) (h : v.isStr = false) : isCommentMode v = false := by
  cases v <;> simp_all [isCommentMode, TV.isStr]

theorem name_options_must_be_str (env : Env) (s : ClientSettings)
    (h : s.targetPackageName.isStr = false ∨ s.clientName.isStr = false ∨ s.clientFileName.isStr = false ∨
         s.enumsModuleName.isStr = false ∨ s.inputTypesModuleName.isStr = false ∨ s.fragmentsModuleName.isStr = false) :
    ∀ s', clientPostInit env s ≠ .ok s' := by
  intro s' hs
  have hnv := (accepted_iff env s).mp ⟨s', hs⟩
  have key : ∀ v : TV, v.isStr = false → ¬ IsName env v := by
    rintro v hv ⟨n, rfl, _⟩; cases hv
  rcases h with h | h | h | h | h | h
  · exact hnv .packageName (key _ h)
  · exact hnv .clientName (key _ h)
  · exact hnv .clientFileName (key _ h)
  · exact hnv .enumsModule (key _ h)
  · exact hnv .inputTypesModule (key _ h)
  · exact hnv .fragmentsModule (key _ h)

theorem path_options_must_be_str (env : Env) (s : ClientSettings)
    (h : (s.schemaPath.truthy = true ∧ s.schemaPath.isStr = false) ∨ s.queriesPath.isStr = false ∨
         s.targetPackagePath.isStr = false) :
    ∀ s', clientPostInit env s ≠ .ok s' := by
  intro s' hs
  have hnv := (accepted_iff env s).mp ⟨s', hs⟩
  have key : ∀ (t : String → Bool) (v : TV), v.isStr = false → ¬ IsPath t v := by
    rintro t v hv ⟨n, rfl, _⟩; cases hv
  rcases h with ⟨ht, h⟩ | h | h
  · exact hnv .schemaPathExists ⟨ht, key _ _ h⟩
  · exact hnv .queriesPathExists (key _ _ h)
  · exact hnv .packagePathDir (key _ _ h)

/-! ## 3. The graphqlschema strategy's settings -/

/-- the target file name has one of the three supported suffixes -/
def GoodTarget (f : String) : Prop :=
  (pathSuffix f).isEmpty = false ∧
    (asciiLower ((pathSuffix f).drop 1) = "py" ∨ asciiLower ((pathSuffix f).drop 1) = "graphql"
      ∨ asciiLower ((pathSuffix f).drop 1) = "gql")

def ViolatesS (env : Env) (s : SchemaSettings) : SchemaCheck → Prop
  | .schemaSource => s.schemaPath.truthy = false ∧ s.remoteSchemaUrl.truthy = false
  | .schemaPathExists => s.schemaPath.truthy = true ∧ ¬ IsPath env.pathExists s.schemaPath
  | .headers => ¬ HeadersOk env s.remoteSchemaHeaders
  | .targetFileType => ¬ ∃ f, s.targetFilePath = .str f ∧ GoodTarget f
  | .schemaVariable => ¬ IsName env s.schemaVariableName
  | .typeMapVariable => ¬ IsName env s.typeMapVariableName

def ExpectedS (env : Env) (s : SchemaSettings) : SchemaCheck → ConfigError → Prop
  | .schemaSource, e => e = .noSchemaSource
  | .schemaPathExists, e => PathExpected s.missing .pathMissing s.schemaPath e
  | .headers, e =>
      (∃ kvs, s.remoteSchemaHeaders = .table kvs ∧ HeaderErrorOf kvs e) ∨
      (s.remoteSchemaHeaders.isTable = false ∧ e = .internal "AttributeError")
  | .targetFileType, e =>
      (∃ f, s.targetFilePath = .str f ∧ (e = .targetNoFileType f ∨
          e = .targetBadFileType f (asciiLower ((pathSuffix f).drop 1)))) ∨
      (s.targetFilePath.isStr = false ∧ e = .typeErrorAsMissing s.missing)
  | .schemaVariable, e => NameExpected s.schemaVariableName e
  | .typeMapVariable, e => NameExpected s.typeMapVariableName e

theorem targetFileCheck_some_iff (f : String) : (∃ e, targetFileCheck f = some e) ↔ ¬ GoodTarget f := by
  simp only [targetFileCheck, GoodTarget]
  generalize (pathSuffix f).isEmpty = b
  generalize asciiLower ((pathSuffix f).drop 1) = t
  cases b
  · by_cases h1 : t = "py" <;> by_cases h2 : t = "graphql" <;> by_cases h3 : t = "gql" <;> simp [h1, h2, h3]
  · simp

theorem checkS_raises_iff (env : Env) (s : SchemaSettings) (k : SchemaCheck) :
    (∃ e, evalSchemaCheck env s k = some e) ↔ ViolatesS env s k := by
  cases k <;> simp only [evalSchemaCheck, ViolatesS]
  case schemaSource => cases s.schemaPath.truthy <;> cases s.remoteSchemaUrl.truthy <;> simp
  case schemaPathExists =>
    cases ht : s.schemaPath.truthy
    · simp
    · simp only [if_true, true_and]; exact pathCheck_some_iff _ _ _ _
  case headers =>
    rw [← firstBadHeaderV_none_iff]
    cases firstBadHeaderV env s.remoteSchemaHeaders <;> simp
  case targetFileType =>
    cases hv : s.targetFilePath <;> simp [targetFileCheckV]
    case str f => simpa using targetFileCheck_some_iff f
  case schemaVariable => exact identCheckV_some_iff env _
  case typeMapVariable => exact identCheckV_some_iff env _

theorem checkS_error_expected (env : Env) (s : SchemaSettings) (k : SchemaCheck) (e : ConfigError)
    (h : evalSchemaCheck env s k = some e) : ExpectedS env s k e := by
  cases k <;> simp only [evalSchemaCheck, ExpectedS] at h ⊢
  case schemaSource => split at h <;> simp_all
  case schemaPathExists =>
    split at h
    · exact pathExpected_of _ _ _ _ _ h
    · cases h
  case headers => exact firstBadHeaderV_some env _ e h
  case targetFileType =>
    cases hv : s.targetFilePath <;> simp only [hv, targetFileCheckV, TV.isStr] at h ⊢
    case str f =>
      left
      refine ⟨f, rfl, ?_⟩
      simp only [targetFileCheck] at h
      split at h
      · left; simp_all
      · split at h
        · simp at h
        · right; simp_all
    all_goals
      right
      simp at h
      first | exact ⟨rfl, h.symm⟩ | exact ⟨trivial, h.symm⟩ | simp_all
  case schemaVariable => exact identCheckV_eq env _ e h
  case typeMapVariable => exact identCheckV_eq env _ e h

/-- the fields of `GraphQLSchemaSettings` hold values of the kinds its annotations name -/
structure WellTypedS (s : SchemaSettings) : Prop where
  schemaPath : s.schemaPath.isStr = true
  headers : strTable s.remoteSchemaHeaders = true
  target : s.targetFilePath.isStr = true
  schemaVariable : s.schemaVariableName.isStr = true
  typeMapVariable : s.typeMapVariableName.isStr = true

theorem checkS_error_typed (env : Env) (s : SchemaSettings) (hw : WellTypedS s) (k : SchemaCheck) (e : ConfigError)
    (h : evalSchemaCheck env s k = some e) : e.typed = true := by
  have hx := checkS_error_expected env s k e h
  cases k <;> simp only [ExpectedS] at hx
  case schemaSource => subst hx; rfl
  case schemaPathExists => exact pathExpected_typed _ _ _ _ hw.schemaPath (fun _ => rfl) hx
  case headers =>
    have hh := hw.headers
    rcases hx with ⟨kvs, hk, kv, hm, hkv⟩ | ⟨hn, _⟩
    · rw [hk] at hh
      simp only [strTable, List.all_eq_true] at hh
      rcases hkv with ⟨x, _, rfl⟩ | ⟨hns, _⟩
      · rfl
      · rw [hh kv hm] at hns; cases hns
    · cases hv : s.remoteSchemaHeaders <;> simp [hv, strTable, TV.isTable] at hh hn
  case targetFileType =>
    rcases hx with ⟨f, _, rfl | rfl⟩ | ⟨hn, _⟩
    · rfl
    · rfl
    · rw [hw.target] at hn; cases hn
  case schemaVariable => exact nameExpected_typed _ _ hw.schemaVariable hx
  case typeMapVariable => exact nameExpected_typed _ _ hw.typeMapVariable hx

/-- **violation_typed** for `GraphQLSchemaSettings` (bad target file suffix, invalid variable names ...) -/
theorem violation_typed_schema (env : Env) (s : SchemaSettings) (k : SchemaCheck) (pre post : List SchemaCheck)
    (hord : SchemaCheck.order = pre ++ k :: post)
    (hk : ViolatesS env s k) (hpre : ∀ k' ∈ pre, ¬ ViolatesS env s k') :
    ∃ e, schemaPostInit env s = .error e ∧ ExpectedS env s k e ∧ (WellTypedS s → e.typed = true) := by
  obtain ⟨e, he⟩ := (checkS_raises_iff env s k).mpr hk
  refine ⟨e, ?_, checkS_error_expected env s k e he, fun hw => checkS_error_typed env s hw k e he⟩
  have hnone : ∀ k' ∈ pre, evalSchemaCheck env s k' = none := by
    intro k' hk'
    cases hc : evalSchemaCheck env s k' with
    | none => rfl
    | some e' => exact absurd ((checkS_raises_iff env s k').mp ⟨e', hc⟩) (hpre k' hk')
  unfold schemaPostInit
  rw [hord, firstError_append_some (evalSchemaCheck env s) pre post k e he hnone]

example : schemaPostInit exEnv { schemaPath := "s.graphql", targetFilePath := "out/schema.txt" } =
    .error (.targetBadFileType "out/schema.txt" "txt") := by decide
example : schemaPostInit exEnv { schemaPath := "s.graphql", targetFilePath := "schema" } =
    .error (.targetNoFileType "schema") := by decide
example : schemaPostInit exEnv { schemaPath := "s.graphql", targetFilePath := .int 1, missing := ["plugins"] } =
    .error (.typeErrorAsMissing ["plugins"]) := by decide

/-- a base name that is only a dot plus an extension (`out/.py`, `.graphql`, `.GQL`) has NO file type
    (`PurePath.suffix` is empty for it): whatever the directory part, it is refused as "missing a file type" -/
theorem dot_only_name_refused (f : String) (h : pathSuffix f = []) : targetFileCheck f = some (.targetNoFileType f) := by
  simp [targetFileCheck, h]

theorem dot_only_name_violates (env : Env) (s : SchemaSettings) (f : String) (hs : s.targetFilePath = .str f)
    (h : pathSuffix f = []) : ViolatesS env s .targetFileType := by
  simp only [ViolatesS]
  rintro ⟨g, hg, hgood⟩
  rw [hs] at hg
  injection hg with hg
  subst hg
  simp [GoodTarget, h] at hgood

example : pathSuffix "out/.py" = [] ∧ pathSuffix ".graphql" = [] ∧ pathSuffix ".GQL" = [] ∧ pathSuffix "a.b/.gql" = [] ∧
    pathSuffix "out/..py" = ['.', 'p', 'y'] := by decide
example : schemaPostInit exEnv { schemaPath := "s.graphql", targetFilePath := "out/.py" } =
    .error (.targetNoFileType "out/.py") := by decide
example : schemaPostInit exEnv { schemaPath := "s.graphql", targetFilePath := ".GQL" } =
    .error (.targetNoFileType ".GQL") := by decide

/-- the operations are validated as ONE document (`validate(schema, document, rules)` on everything
    `queries_path` holds - fragments-only documents and rules that need the whole document, such as unique
    operation names, included): whenever that reports an error and the files loaded, `get_graphql_queries`
    raises InvalidOperationForSchema carrying every message -/
theorem invalid_document_refused (q : QueriesOracle) (h : loadSource q.src = .ok ()) (hv : q.validationErrors ≠ []) :
    loadQueries q = .error (.codegen "InvalidOperationForSchema" ("\n\n".intercalate q.validationErrors)) := by
  unfold loadQueries
  simp only [bind, Except.bind, pure, Except.pure, throw, throwThe, MonadExceptOf.throw, h]
  cases hq : q.validationErrors with
  | nil => exact absurd hq hv
  | cons a l => simp

theorem valid_accepted_schema (env : Env) (s : SchemaSettings) (h : ∀ k, ¬ ViolatesS env s k) :
    schemaPostInit env s = .ok (finalizeSchema env s) := by
  have : firstError (evalSchemaCheck env s) SchemaCheck.order = none := by
    rw [firstError_none_iff]
    intro k _
    cases hc : evalSchemaCheck env s k with
    | none => rfl
    | some e => exact absurd ((checkS_raises_iff env s k).mp ⟨e, hc⟩) (h k)
  simp [schemaPostInit, this]

example : schemaPostInit exEnv { schemaPath := "s.graphql", targetFilePath := "d.x/S.GraphQL" } =
    .ok (finalizeSchema exEnv { schemaPath := "s.graphql", targetFilePath := "d.x/S.GraphQL" }) := by decide

/-! ## 4. config.py: section lookup, scalars, unknown keys, purity — for values of every kind -/

/-- a configuration whose section is `[tool.ariadne-codegen]` -/
def mkCfg (sec : Dict) : Dict := [("tool", .table [("ariadne-codegen", .table sec)])]

theorem getSection_mkCfg (sec : Dict) : getSection (mkCfg sec) = .ok (.table sec, false) := by
  simp [getSection, mkCfg, TV.lookup]

/-- no `[tool.ariadne-codegen]` and no `[ariadne-codegen]` section: `MissingConfiguration`, both strategies -/
theorem no_section_rejected (env : Env) (top : Dict)
    (h1 : TV.lookup "tool" top = none ∨ ∃ tool, TV.lookup "tool" top = some (.table tool) ∧ TV.lookup "ariadne-codegen" tool = none)
    (h2 : TV.lookup "ariadne-codegen" top = none) :
    (getClientSettings env top).result = .error .missingSection ∧
    (getSchemaSettings env top).result = .error .missingSection := by
  have hs : getSection top = .error .missingSection := by
    rcases h1 with h | ⟨tool, ht, hn⟩
    · simp [getSection, h, h2]
    · simp [getSection, ht, hn, h2]
  simp [getClientSettings, readRawClient, getSchemaSettings, readRawSchema, hs, bind, Except.bind]

example : (getClientSettings exEnv [("tool", .table [("black", .table [])])]).result = .error .missingSection := by decide

/-- the deprecated top-level section is still read (with a warning), `[tool.ariadne-codegen]` wins -/
theorem deprecated_section_read (env : Env) (top : Dict) (sec : TV) (h1 : TV.lookup "tool" top = none)
    (h2 : TV.lookup "ariadne-codegen" top = some sec) :
    getSection top = .ok (sec, true) := by
  simp [getSection, h1, h2]

/-- a section that is not a table (`ariadne-codegen = 1` under `[tool]`): `.copy()` / `.items()` fail
    with a bare `AttributeError`, both strategies -/
theorem section_not_table (env : Env) (top : Dict) (v : TV) (d : Bool) (hs : getSection top = .ok (v, d))
    (hv : v.isTable = false) :
    (getClientSettings env top).result = .error (.internal "AttributeError") ∧
    (getSchemaSettings env top).result = .error (.internal "AttributeError") := by
  cases v <;> simp [TV.isTable] at hv <;>
    simp [getClientSettings, readRawClient, getSchemaSettings, readRawSchema, hs, bind, Except.bind]

/-- `tool = <number / boolean>`: `"ariadne-codegen" in tool` is a bare `TypeError` -/
theorem tool_not_iterable (top : Dict) (v : TV) (ht : TV.lookup "tool" top = some v)
    (hv : v.containsStr "ariadne-codegen" = none) : getSection top = .error (.internal "TypeError") := by
  cases v <;> simp [TV.containsStr] at hv <;> simp [getSection, ht, TV.containsStr]

example : getSection [("tool", .str "see ariadne-codegen docs")] = .error (.internal "TypeError") := by decide
example : getSection [("tool", .str "nothing"), ("ariadne-codegen", .table [])] = .ok (.table [], true) := by decide

/-- **scalar without type**: the first scalar table lacking `type` (all earlier ones well-formed)
    makes `get_client_settings` raise `MissingConfiguration("Missing 'type' field ...")` -/
theorem scalar_without_type_rejected (env : Env) (sec : Dict) (pre post : List (String × TV)) (n : String)
    (d : List (String × TV)) (pres : List ScalarData)
    (hs : TV.lookup "scalars" sec = some (.table (pre ++ (n, .table d) :: post)))
    (hpre : parseScalars pre = .ok pres) (hd : TV.lookup "type" d = none) :
    (getClientSettings env (mkCfg sec)).result = .error .scalarMissingType := by
  simp [getClientSettings, readRawClient, getSection_mkCfg, Heap.copy, hs, bind, Except.bind,
    parseScalars_missing_type pre post n d pres hpre hd]

example : (getClientSettings exEnv (mkCfg [("schema_path", .str "s"), ("queries_path", .str "q"),
    ("scalars", .table [("A", .table [("type", .str "str")]), ("B", .table [("parse", .str "p")])])])).result
    = .error .scalarMissingType := by decide

/-- `scalars` that is not a table: `.items()` is a bare `AttributeError` -/
theorem scalars_not_table (env : Env) (sec : Dict) (v : TV) (hs : TV.lookup "scalars" sec = some v)
    (hv : v.isTable = false) : (getClientSettings env (mkCfg sec)).result = .error (.internal "AttributeError") := by
  cases v <;> simp [TV.isTable] at hv <;>
    simp [getClientSettings, readRawClient, getSection_mkCfg, Heap.copy, hs, bind, Except.bind]

/-- a scalar entry that is not a table (`scalars.DT = "datetime"`): `data["type"]` is a bare `TypeError` -/
theorem scalar_entry_not_table (n : String) (v : TV) (hv : v.isTable = false) :
    parseScalar n v = .error (.internal "TypeError") := by
  cases v <;> simp [TV.isTable] at hv <;> rfl

example : (getClientSettings exEnv (mkCfg [("schema_path", .str "s"), ("queries_path", .str "q"),
    ("scalars", .table [("DT", .str "datetime.datetime")])])).result = .error (.internal "TypeError") := by decide
/-- a scalar whose `type` is a number is NOT a scalar without type for the code: `"." in 1` -/
example : parseScalar "DT" (.table [("type", .int 1)]) = .error (.internal "TypeError") := by decide
example : (parseScalar "DT" (.table [("type", .list [])])).toOption.map (·.type_) = some (.list []) := by decide

/-- **settings_pure** (must): reading settings never mutates the configuration it is given —
    `get_client_settings` copies the section before its two item assignments, and
    `get_graphql_schema_settings` assigns nothing. -/
theorem settings_pure (env : Env) (cfg : Dict) :
    (getClientSettings env cfg).callerAfter = cfg ∧ (getSchemaSettings env cfg).callerAfter = cfg := by
  constructor
  · simp only [getClientSettings, readRawClient]
    cases hs : getSection cfg with
    | error e => rfl
    | ok p =>
      obtain ⟨sec, depr⟩ := p
      cases sec <;> simp only [Heap.copy] <;> try rfl
      case table kvs =>
        split
        · rfl
        · split <;> simp [Heap.setItem]
  · simp only [getSchemaSettings, readRawSchema]
    cases hs : getSection cfg with
    | error e => rfl
    | ok p =>
      obtain ⟨sec, depr⟩ := p
      cases sec <;> rfl

/-- the copy is what makes it so: an item assignment through an ALIASED section reaches the caller -/
example : ((({ caller := mkCfg [("a", .int 0)], viaTool := true, section_ := [("a", .int 0)], aliased := true } : Heap).setItem
    "scalars" (.table [])).caller == mkCfg [("a", .int 0), ("scalars", .table [])]) = true := by decide

def knownClientKey (k : String) : Bool := clientFieldNames.contains k
def onlyKnown (sec : Dict) : Dict := sec.filter (fun kv => knownClientKey kv.1)

theorem onlyKnown_idem (sec : Dict) : onlyKnown (onlyKnown sec) = onlyKnown sec := by
  simp [onlyKnown, List.filter_filter]

/-- the scalars table as `get_client_settings` reads it -/
def scalarsOf (sec : Dict) : Except ConfigError (List ScalarData) :=
  (match TV.lookup "scalars" sec with
    | none => (Except.ok [] : Except ConfigError (List (String × TV)))
    | some (TV.table kvs) => Except.ok kvs
    | some _ => Except.error (ConfigError.internal "AttributeError")) >>= parseScalars

/-- the section after the two item assignments of `get_client_settings` -/
def sectionAfter (sec : Dict) (scalars : List ScalarData) : Dict :=
  match TV.lookup "include_comments" sec with
  | some (.bool b) => dictSet "include_comments" (.str (if b then "timestamp" else "none")) (dictSet "scalars" (scalarsMarker scalars) sec)
  | _ => dictSet "scalars" (scalarsMarker scalars) sec

/-- `get_client_settings` up to the dataclass constructor, spelled out -/
theorem readRawClient_mkCfg (env : Env) (sec : Dict) :
    (readRawClient env (mkCfg sec)).result =
      (match scalarsOf sec with
       | .error e => .error e
       | .ok scalars => .ok (buildClient env (sectionAfter sec scalars) scalars)) := by
  simp only [readRawClient, getSection_mkCfg, Heap.copy, scalarsOf, sectionAfter]
  generalize (match TV.lookup "scalars" sec with
    | none => (Except.ok [] : Except ConfigError (List (String × TV)))
    | some (TV.table kvs) => Except.ok kvs
    | some _ => Except.error (ConfigError.internal "AttributeError")) >>= parseScalars = parsed
  cases parsed with
  | error e => rfl
  | ok scalars =>
    simp only [Heap.setItem]
    rw [lookup_dictSet_ne "include_comments" "scalars" _ sec (by decide)]
    cases hl : TV.lookup "include_comments" sec with
    | none => rfl
    | some v => cases v <;> rfl

/-- ... and whether the deprecation warning for a boolean `include_comments` is issued -/
theorem readRawClient_mkCfg_flag (env : Env) (sec : Dict) :
    (readRawClient env (mkCfg sec)).deprecatedBoolComments =
      (match scalarsOf sec with
       | .error _ => false
       | .ok _ => (match TV.lookup "include_comments" sec with
                   | some (.bool _) => true
                   | _ => false)) := by
  simp only [readRawClient, getSection_mkCfg, Heap.copy, scalarsOf]
  generalize (match TV.lookup "scalars" sec with
    | none => (Except.ok [] : Except ConfigError (List (String × TV)))
    | some (TV.table kvs) => Except.ok kvs
    | some _ => Except.error (ConfigError.internal "AttributeError")) >>= parseScalars = parsed
  cases parsed with
  | error e => rfl
  | ok scalars =>
    simp only [Heap.setItem]
    rw [lookup_dictSet_ne "include_comments" "scalars" _ sec (by decide)]
    cases hl : TV.lookup "include_comments" sec with
    | none => rfl
    | some v => cases v <;> rfl

theorem raw_result_onlyKnown (env : Env) (sec : Dict) :
    (readRawClient env (mkCfg sec)).result = (readRawClient env (mkCfg (onlyKnown sec))).result := by
  have hsc : TV.lookup "scalars" (onlyKnown sec) = TV.lookup "scalars" sec :=
    lookup_filter_key knownClientKey "scalars" (by decide) sec
  have hic : TV.lookup "include_comments" (onlyKnown sec) = TV.lookup "include_comments" sec :=
    lookup_filter_key knownClientKey "include_comments" (by decide) sec
  rw [readRawClient_mkCfg, readRawClient_mkCfg]
  have hso : scalarsOf (onlyKnown sec) = scalarsOf sec := by simp only [scalarsOf, hsc]
  rw [hso]
  cases scalarsOf sec with
  | error e => rfl
  | ok scalars =>
    have hf1 : ∀ v l, onlyKnown (dictSet "scalars" v l) = dictSet "scalars" v (onlyKnown l) :=
      fun v l => filter_dictSet knownClientKey "scalars" v (by decide) l
    have hf2 : ∀ v l, onlyKnown (dictSet "include_comments" v l) = dictSet "include_comments" v (onlyKnown l) :=
      fun v l => filter_dictSet knownClientKey "include_comments" v (by decide) l
    have key : onlyKnown (sectionAfter sec scalars) = onlyKnown (sectionAfter (onlyKnown sec) scalars) := by
      simp only [sectionAfter, hic]
      cases hl : TV.lookup "include_comments" sec with
      | none => simp only [hf1, onlyKnown_idem]
      | some v => cases v <;> simp only [hf1, hf2, onlyKnown_idem]
    show Except.ok (assignClientFields env (onlyKnown _) scalars) = Except.ok (assignClientFields env (onlyKnown _) scalars)
    rw [key]

/-- **unknown_keys_ignored** (must): two sections that agree on the keys `ClientSettings` knows
    (same values of whatever kind, same order) are read to the same result, whatever else they contain -/
theorem unknown_keys_ignored (env : Env) (sec sec' : Dict) (h : onlyKnown sec = onlyKnown sec') :
    (getClientSettings env (mkCfg sec)).result = (getClientSettings env (mkCfg sec')).result := by
  simp only [getClientSettings]
  rw [raw_result_onlyKnown env sec, raw_result_onlyKnown env sec', h]

example : onlyKnown [("zzz", .int 1), ("schema_path", .str "s"), ("Schema_Path", .str "x"), ("queries_path", .str "q")]
    = onlyKnown [("schema_path", .str "s"), ("queries_path", .str "q"), ("nested", .table [])] := by
  simp [onlyKnown, knownClientKey, clientFieldNames, Tables.clientSettingsFields, List.filter]

def knownSchemaKey (k : String) : Bool := schemaFieldNames.contains k

theorem unknown_keys_ignored_schema (env : Env) (sec sec' : Dict)
    (h : sec.filter (fun kv => knownSchemaKey kv.1) = sec'.filter (fun kv => knownSchemaKey kv.1)) :
    (getSchemaSettings env (mkCfg sec)).result = (getSchemaSettings env (mkCfg sec')).result := by
  have h' : sec.filter (fun kv => schemaFieldNames.contains kv.1) = sec'.filter (fun kv => schemaFieldNames.contains kv.1) := h
  simp only [getSchemaSettings, readRawSchema, getSection_mkCfg, buildSchema, h']

/-! ### `include_comments`: only a TOML boolean takes the deprecated path; 1 / 0 / 1.0 are numbers -/

theorem includeComments_of_section (env : Env) (sec : Dict) (scalars : List ScalarData) (v : TV)
    (h : TV.lookup "include_comments" sec = some v) (hb : v.isBool = false) :
    (buildClient env (sectionAfter sec scalars) scalars).includeComments = v := by
  have hsa : sectionAfter sec scalars = dictSet "scalars" (scalarsMarker scalars) sec := by
    simp only [sectionAfter, h]
    cases v <;> simp [TV.isBool] at hb <;> rfl
  have hk : knownClientKey "include_comments" = true := by decide
  show getV ((sectionAfter sec scalars).filter (fun kv => knownClientKey kv.1)) "include_comments" (.str "stable") = v
  rw [hsa]
  unfold getV
  rw [lookup_filter_key knownClientKey "include_comments" hk, lookup_dictSet_ne "include_comments" "scalars" _ sec (by decide), h]
  rfl

/-- **comment_value_reaches_validation**: a value of `include_comments` that is not a TOML boolean —
    in particular the numbers 1, 0, 1.0, 0.0, which Python considers EQUAL to `True` / `False` — is handed
    to the dataclass unchanged and without the deprecation warning -/
theorem comment_value_reaches_validation (env : Env) (sec : Dict) (v : TV)
    (h : TV.lookup "include_comments" sec = some v) (hb : v.isBool = false) :
    (readRawClient env (mkCfg sec)).deprecatedBoolComments = false ∧
    ∀ s, (readRawClient env (mkCfg sec)).result = .ok s → s.includeComments = v := by
  constructor
  · rw [readRawClient_mkCfg_flag, h]
    cases scalarsOf sec with
    | error e => rfl
    | ok sc => cases v <;> simp [TV.isBool] at hb <;> rfl
  · intro s hs
    rw [readRawClient_mkCfg] at hs
    cases hsc : scalarsOf sec with
    | error e => simp [hsc] at hs
    | ok scalars =>
      simp only [hsc] at hs
      injection hs with hs
      rw [← hs]
      exact includeComments_of_section env sec scalars v h hb

/-- **unknown_comment_mode_rejected**: whatever else the section says, an `include_comments` that is
    neither a TOML boolean nor one of the three mode strings is never accepted — for values of every
    kind (numbers, lists, tables, other strings) -/
theorem unknown_comment_mode_rejected (env : Env) (sec : Dict) (v : TV)
    (h : TV.lookup "include_comments" sec = some v) (hb : v.isBool = false) (hm : isCommentMode v = false) :
    ∀ s', (getClientSettings env (mkCfg sec)).result ≠ .ok s' := by
  intro s' hs
  simp only [getClientSettings, bind, Except.bind] at hs
  cases hr : (readRawClient env (mkCfg sec)).result with
  | error e => simp [hr] at hs
  | ok s =>
    simp only [hr] at hs
    have hv := (comment_value_reaches_validation env sec v h hb).2 s hr
    exact comment_mode_must_be_a_mode env s (by rw [hv]; exact hm) s' hs

/-- the real TOML boolean is still translated (and warned about) -/
theorem bool_comment_translated (env : Env) (sec : Dict) (b : Bool) (scalars : List ScalarData)
    (h : TV.lookup "include_comments" sec = some (.bool b)) (hsc : scalarsOf sec = .ok scalars) :
    (readRawClient env (mkCfg sec)).deprecatedBoolComments = true ∧
    ∃ s, (readRawClient env (mkCfg sec)).result = .ok s ∧
      s.includeComments = .str (if b then "timestamp" else "none") := by
  constructor
  · rw [readRawClient_mkCfg_flag, hsc, h]
  · rw [readRawClient_mkCfg, hsc]
    refine ⟨_, rfl, ?_⟩
    have hk : knownClientKey "include_comments" = true := by decide
    show getV ((sectionAfter sec scalars).filter (fun kv => knownClientKey kv.1)) "include_comments" (.str "stable") = _
    simp only [sectionAfter, h]
    unfold getV
    rw [lookup_filter_key knownClientKey "include_comments" hk, lookup_dictSet_eq]
    rfl

def okSec : Dict := [("schema_path", .str "s.graphql"), ("queries_path", .str "q.graphql"), ("target_package_path", .str "/w/out")]

/-- the seeded change `include_comments = 1` in one line each: rejected as a comment mode, no deprecation warning -/
example : (getClientSettings exEnv (mkCfg (okSec ++ [("include_comments", .int 1)]))).result = .error (.badCommentMode "1") := by decide
example : (getClientSettings exEnv (mkCfg (okSec ++ [("include_comments", .float "0.0")]))).result = .error (.badCommentMode "0.0") := by decide
example : (getClientSettings exEnv (mkCfg (okSec ++ [("include_comments", .int 1)]))).deprecatedBoolComments = false := by decide
example : (getClientSettings exEnv (mkCfg (okSec ++ [("include_comments", .bool true)]))).deprecatedBoolComments = true := by decide
example : ((getClientSettings exEnv (mkCfg (okSec ++ [("include_comments", .bool true)]))).result.toOption.map (·.includeComments))
    = some (.str "timestamp") := by decide

/-- the option names the two filters are built from are the dataclass fields of the pinned tree
    (regenerated table: a new or renamed option breaks this and with it the build) -/
theorem client_field_names :
    clientFieldNames = ["schema_path", "remote_schema_url", "remote_schema_headers", "remote_schema_verify_ssl",
      "enable_custom_operations", "plugins", "queries_path", "target_package_name", "target_package_path",
      "client_name", "client_file_name", "base_client_name", "base_client_file_path", "enums_module_name",
      "input_types_module_name", "fragments_module_name", "include_comments", "convert_to_snake_case",
      "include_all_inputs", "include_all_enums", "async_client", "opentelemetry_client", "files_to_include",
      "scalars"] := by decide +kernel

/-- the defaults the model assigns are the dataclass defaults of the pinned tree -/
theorem client_defaults_table :
    Tables.clientSettingsFields.filter (fun p => p.2 != "<factory>") =
      [("schema_path", "''"), ("remote_schema_url", "''"), ("remote_schema_verify_ssl", "True"),
       ("enable_custom_operations", "False"), ("queries_path", "''"), ("target_package_name", "'graphql_client'"),
       ("client_name", "'Client'"), ("client_file_name", "'client'"), ("base_client_name", "''"),
       ("base_client_file_path", "''"), ("enums_module_name", "'enums'"), ("input_types_module_name", "'input_types'"),
       ("fragments_module_name", "'fragments'"), ("include_comments", "'stable'"), ("convert_to_snake_case", "True"),
       ("include_all_inputs", "True"), ("include_all_enums", "True"), ("async_client", "True"),
       ("opentelemetry_client", "False")] ∧
    Tables.schemaSettingsFields.filter (fun p => p.2 != "<factory>") =
      [("schema_path", "''"), ("remote_schema_url", "''"), ("remote_schema_verify_ssl", "True"),
       ("enable_custom_operations", "False"), ("target_file_path", "'schema.py'"), ("schema_variable_name", "'schema'"),
       ("type_map_variable_name", "'type_map'")] := by decide +kernel

/-- the four bundled base clients the defaults refer to exist in the regenerated table -/
theorem default_clients_table :
    ∀ a o, (defaultClassName (clientKind a o)).isSome = true := by decide +kernel

/-- no keyword is accepted as a name, whatever `str.isidentifier` says (C17-F1 stays fixed) -/
theorem keyword_never_valid (env : Env) (n : String) (h : n ∈ Tables.kwlist) : validName env n = false := by
  have : isKeyword n = true := by simpa [isKeyword] using h
  simp [validName, this]

/-! ## 5. The phase order: nothing is written before `PackageGenerator.generate` reaches `mkdir` -/

theorem no_write_before_generate (r : ClientRun) (ph : Phase) (e : PyErr)
    (h : (client r).result = .error (ph, e)) (hph : ph ≠ .generateWrite) : (client r).log = [] := by
  unfold client at h ⊢
  cases hp : prepare r with
  | error x => rfl
  | ok p =>
    simp only [hp] at h ⊢
    rcases generate_spec r p with ⟨hl, _⟩ | ⟨e', he'⟩ | ⟨fs, hfs⟩
    · exact hl
    · rw [he'] at h
      simp at h
      exact absurd h.1.symm hph
    · rw [hfs] at h
      cases h

/-- the phases `prepare` can fail in are exactly the six before `generate` -/
theorem prepare_phase (r : ClientRun) (ph : Phase) (e : PyErr) (h : prepare r = .error (ph, e)) :
    ph = .settings ∨ ph = .loadSchema ∨ ph = .plugins ∨ ph = .assertValid ∨ ph = .loadQueries ∨ ph = .addOperation := by
  rcases prepare_error_cases r ph e h with ⟨_, _, h, _⟩ | ⟨_, _, ⟨_, h⟩ | ⟨_, _, ⟨_, h⟩ | ⟨_, ⟨_, h⟩ | ⟨_, ⟨_, _, h⟩ | ⟨h, _⟩⟩⟩⟩⟩ <;> simp [h]

/-- the graphqlschema strategy: every failure leaves the target file untouched -/
theorem schema_no_write_on_failure (r : SchemaRun) (x : Phase × PyErr)
    (h : (graphqlSchema r).result = .error x) : (graphqlSchema r).log = [] := by
  unfold graphqlSchema at h ⊢
  cases h1 : (getSchemaSettings r.env r.cfg).result with
  | error e => rfl
  | ok s =>
    simp only [h1] at h ⊢
    cases h2 : loadSchema s.schemaPath.truthy r.schema with
    | error e => rfl
    | ok sch =>
      simp only [h2] at h ⊢
      cases h3 : resolvePlugins s.plugins r.plugins with
      | error e => rfl
      | ok u =>
        simp only [h3] at h ⊢
        cases h4 : assertValid (processSchema r.plugins sch) with
        | error e => rfl
        | ok u2 =>
          simp only [h4] at h ⊢
          cases h5 : r.writeError with
          | some e => rfl
          | none => simp [h5] at h

/-! ## 5b. Files and directory trees: every file is syntax-checked on its own -/

/-- **source_refused_iff_some_file_bad**: for EVERY directory tree (or single file) whose graphql
    files are readable, and every `parses`: loading refuses with `InvalidGraphqlSyntax` exactly when SOME
    graphql file of the tree does not parse on its own.  Whether the concatenation of the files would
    parse plays no role (a file that ends inside a selection set which the next file closes is still
    refused). -/
theorem source_refused_iff_some_file_bad (s : Source) (hread : AllReadable s.root) :
    (∃ m, loadSource s = .error (.codegen "InvalidGraphqlSyntax" m)) ↔
      ∃ p t, HasFile s.root p (.text t) ∧ s.parses t = false :=
  loadSource_refuses_iff s hread

/-- the refusal names a graphql file of the tree that does not parse on its own -/
theorem refusal_names_a_bad_file (s : Source) (m : String)
    (h : loadSource s = .error (.codegen "InvalidGraphqlSyntax" m)) :
    ∃ f t, m = "Invalid graphql syntax in file " ++ f ∧ HasFile s.root f (.text t) ∧ s.parses t = false := by
  rcases loadSource_error_cases s _ h with ⟨f, t, he, hf, hp⟩ | ⟨cls, p, he, _⟩ | ⟨he, _⟩
  · injection he with _ hm
    exact ⟨f, t, hm, hf, hp⟩
  · cases he
  · cases he

/-- which objects of a tree are its graphql files: exactly those whose last component has one of the
    three suffixes, at any depth (specification `InList`, independent of the walk) -/
theorem walk_is_the_suffix_filter (pre : List String) (ns : List FsNode) (e : Entry) :
    e ∈ sortEntries (walkList pre ns) ↔ InList pre ns e.parts e.content := by
  rw [mem_sortEntries]; exact mem_walkList pre ns e

/-- a toy `parses` for the examples: three texts parse, nothing else does -/
def toyParses (t : String) : Bool := t == "ok" || t == "ok\nok" || t == "{\n}"

/-- a queries directory whose two files are each invalid but whose concatenation `{\n}` parses:
    refused, naming the first file in sorted order; a comment-only / empty neighbour is refused too -/
example : loadSource { root := .dir "/w/q" [.file "b_rest.graphql" (.text "}"), .file "a_users.graphql" (.text "{")],
                       parses := toyParses }
    = .error (.codegen "InvalidGraphqlSyntax" "Invalid graphql syntax in file /w/q/a_users.graphql") := by decide
example : toyParses "{\n}" = true := by decide
example : loadSource { root := .dir "/w/q" [.file "z.gql" (.text ""), .dir "sub" [.file "a.graphqls" (.text "ok")],
                                             .file "notes.txt" (.text "}")],
                       parses := toyParses }
    = .error (.codegen "InvalidGraphqlSyntax" "Invalid graphql syntax in file /w/q/z.gql") := by decide
/-- files in sub-directories count, other suffixes do not, the order is by path components -/
example : (filesRead (.dir "/w/q" [.file "b.gql" (.text "2"), .dir "a" [.file "x.graphql" (.text "1")],
    .file "a.b.graphqls" (.text "3"), .file "c.GQL" (.text "4"), .file ".graphql" (.text "5")])).map (·.1)
    = ["/w/q/a/x.graphql", "/w/q/a.b.graphqls", "/w/q/b.gql"] := by decide

theorem prepare_schema_error (r : ClientRun) (s : ClientSettings) (e : PyErr)
    (h1 : (getClientSettings r.env r.cfg).result = .ok s) (h2 : loadSchema s.schemaPath.truthy r.schema = .error e) :
    prepare r = .error (.loadSchema, e) := by
  unfold prepare
  simp only [bind, Except.bind, pure, Except.pure, throw, throwThe, MonadExceptOf.throw, h1, h2]

theorem loadSchema_syntax_iff (o : SchemaOracle) (m : String) :
    loadSchema true o = .error (.codegen "InvalidGraphqlSyntax" m) ↔
      loadSource o.src = .error (.codegen "InvalidGraphqlSyntax" m) := by
  unfold loadSchema
  simp only [bind, Except.bind, pure, Except.pure, throw, throwThe, MonadExceptOf.throw, if_true]
  cases hl : loadSource o.src with
  | error e => simp
  | ok u => cases o.buildError <;> simp

/-- **schema_file_refused_up_front**: through the whole command — accepted settings with a schema path:
    `main.client` fails in the schema-loading phase with `InvalidGraphqlSyntax` exactly when some graphql
    file below `schema_path` does not parse on its own; the message names such a file and nothing was
    written. -/
theorem schema_file_refused_up_front (r : ClientRun) (s : ClientSettings)
    (h1 : (getClientSettings r.env r.cfg).result = .ok s) (hsp : s.schemaPath.truthy = true)
    (hread : AllReadable r.schema.src.root) :
    ((∃ m, (client r).result = .error (.loadSchema, .codegen "InvalidGraphqlSyntax" m)) ↔
      ∃ p t, HasFile r.schema.src.root p (.text t) ∧ r.schema.src.parses t = false) ∧
    (∀ m, (client r).result = .error (.loadSchema, .codegen "InvalidGraphqlSyntax" m) → (client r).log = [] ∧
      ∃ f t, m = "Invalid graphql syntax in file " ++ f ∧ HasFile r.schema.src.root f (.text t) ∧
        r.schema.src.parses t = false) := by
  have key : ∀ m, (client r).result = .error (.loadSchema, .codegen "InvalidGraphqlSyntax" m) ↔
      loadSource r.schema.src = .error (.codegen "InvalidGraphqlSyntax" m) := by
    intro m
    constructor
    · intro h
      unfold client at h
      cases hp : prepare r with
      | ok p =>
        simp only [hp] at h
        rcases generate_spec r p with ⟨_, m', hm⟩ | ⟨e', he'⟩ | ⟨fs, hfs⟩
        · rw [hm] at h; cases h
        · rw [he'] at h; cases h
        · rw [hfs] at h; cases h
      | error x =>
        simp only [hp] at h
        injection h with h
        subst h
        rcases prepare_error_cases r _ _ hp with ⟨_, _, hph, _⟩ | ⟨s', hs', ⟨hl, _⟩ | ⟨_, _, ⟨_, hph⟩ | ⟨_, ⟨_, hph⟩ | ⟨_, ⟨_, _, hph⟩ | ⟨hph, _⟩⟩⟩⟩⟩
        · cases hph
        · rw [h1] at hs'
          injection hs' with hs'
          subst hs'
          rw [hsp] at hl
          exact (loadSchema_syntax_iff _ m).mp hl
        all_goals cases hph
    · intro h
      have h2 : loadSchema s.schemaPath.truthy r.schema = .error (.codegen "InvalidGraphqlSyntax" m) := by
        rw [hsp]; exact (loadSchema_syntax_iff _ m).mpr h
      unfold client
      rw [prepare_schema_error r s _ h1 h2]
  constructor
  · rw [← source_refused_iff_some_file_bad _ hread]
    constructor
    · rintro ⟨m, hm⟩; exact ⟨m, (key m).mp hm⟩
    · rintro ⟨m, hm⟩; exact ⟨m, (key m).mpr hm⟩
  · intro m hm
    exact ⟨no_write_before_generate r _ _ hm (by decide), refusal_names_a_bad_file _ m ((key m).mp hm)⟩

/-- the same for `queries_path`, once the schema was loaded, the plugins found and the validity
    assertion passed -/
theorem queries_file_refused_up_front (r : ClientRun) (s : ClientSettings) (sch : SchemaState)
    (h1 : (getClientSettings r.env r.cfg).result = .ok s) (h2 : loadSchema s.schemaPath.truthy r.schema = .ok sch)
    (h3 : resolvePlugins s.plugins r.plugins = .ok ()) (h4 : assertValid (processSchema r.plugins sch) = .ok ())
    (hq : s.queriesPath.truthy = true) (hread : AllReadable r.queries.src.root) :
    ((∃ m, (client r).result = .error (.loadQueries, .codegen "InvalidGraphqlSyntax" m)) ↔
      ∃ p t, HasFile r.queries.src.root p (.text t) ∧ r.queries.src.parses t = false) ∧
    (∀ m, (client r).result = .error (.loadQueries, .codegen "InvalidGraphqlSyntax" m) → (client r).log = []) := by
  have hprep : ∀ e, loadQueries r.queries = .error e → prepare r = .error (.loadQueries, e) := by
    intro e he
    unfold prepare
    simp only [bind, Except.bind, pure, Except.pure, throw, throwThe, MonadExceptOf.throw, h1, h2, h3, h4, hq, he, if_true]
  have hlq : ∀ m, loadQueries r.queries = .error (.codegen "InvalidGraphqlSyntax" m) ↔
      loadSource r.queries.src = .error (.codegen "InvalidGraphqlSyntax" m) := by
    intro m
    unfold loadQueries
    simp only [bind, Except.bind, pure, Except.pure, throw, throwThe, MonadExceptOf.throw]
    cases hl : loadSource r.queries.src with
    | error e => simp
    | ok u => by_cases hv : r.queries.validationErrors.isEmpty = true <;> simp [hv]
  have key : ∀ m, (client r).result = .error (.loadQueries, .codegen "InvalidGraphqlSyntax" m) ↔
      loadSource r.queries.src = .error (.codegen "InvalidGraphqlSyntax" m) := by
    intro m
    constructor
    · intro h
      unfold client at h
      cases hp : prepare r with
      | ok p =>
        simp only [hp] at h
        rcases generate_spec r p with ⟨_, m', hm⟩ | ⟨e', he'⟩ | ⟨fs, hfs⟩
        · rw [hm] at h; cases h
        · rw [he'] at h; cases h
        · rw [hfs] at h; cases h
      | error x =>
        simp only [hp] at h
        injection h with h
        subst h
        rcases prepare_error_cases r _ _ hp with ⟨_, _, hph, _⟩ | ⟨s', hs', ⟨_, hph⟩ | ⟨_, _, ⟨_, hph⟩ | ⟨_, ⟨_, hph⟩ | ⟨_, ⟨_, hl, _⟩ | ⟨hph, _⟩⟩⟩⟩⟩
        · cases hph
        · cases hph
        · cases hph
        · cases hph
        · exact (hlq m).mp hl
        · cases hph
    · intro h
      unfold client
      rw [hprep _ ((hlq m).mpr h)]
  constructor
  · rw [← source_refused_iff_some_file_bad _ hread]
    constructor
    · rintro ⟨m, hm⟩; exact ⟨m, (key m).mp hm⟩
    · rintro ⟨m, hm⟩; exact ⟨m, (key m).mpr hm⟩
  · intro m hm
    exact no_write_before_generate r _ _ hm (by decide)

/-! ## 5c. The plugins list -/

/-- a plugin string without a dot that is not a module: refused with `PluginImportError` -/
theorem plugin_without_dot_refused (look : String → PluginLookup) (s : String)
    (hm : look s ≠ .module) (hr : ∀ c, look s ≠ .raises c) (hd : rsplitDot s = none) :
    resolvePlugin look s = .error (.codegen "PluginImportError" "Incorrect plugin path. Use an absolute import path.") := by
  unfold resolvePlugin
  cases hk : look s with
  | module => exact absurd hk hm
  | raises c => exact absurd hk (hr c)
  | classOk => simp [hd]
  | noModule => simp [hd]
  | noAttribute => simp [hd]
  | notPlugin => simp [hd]

/-- every failure of the plugin lookup is typed (a list of strings, an import system that answers) -/
theorem plugin_failures_typed (plugins : TV) (p : PluginsOracle) (e : PyErr)
    (hlist : ∃ items, plugins = .list items ∧ ∀ x ∈ items, x.isStr = true) (hl : LookupsTame p)
    (h : resolvePlugins plugins p = .error e) : e.typed = true :=
  resolvePlugins_error_typed plugins p e hlist hl h

example : resolvePlugin (fun _ => .noAttribute) "pkg.mod.Cls" =
    .error (.codegen "PluginImportError" "Class Cls not found in module pkg.mod") := by decide
example : resolvePlugins (.list [.str "a.B", .str "nodots"]) { lookup := fun _ => .classOk } =
    .error (.codegen "PluginImportError" "Incorrect plugin path. Use an absolute import path.") := by decide

/-! ## 5d. Where the configuration file is looked for (`get_config_file_path`) -/

open Ariadne.ConfigFile in
/-- the nearest ancestor of the current directory (itself included) that contains the file wins -/
theorem config_file_nearest_ancestor (pathExists : String → Bool) (file : String) (rev : List String) :
    (∀ p, searchUp pathExists file rev = .path p →
      ∃ pre d post, ancestorsRev rev = pre ++ d :: post ∧ p = joinPath d file ∧ pathExists p = true ∧
        ∀ d' ∈ pre, pathExists (joinPath d' file) = false) := by
  induction rev with
  | nil =>
    intro p hp
    simp only [searchUp] at hp
    split at hp
    · injection hp with hp
      subst hp
      exact ⟨[], [], [], rfl, rfl, by assumption, by simp⟩
    · cases hp
  | cons c rev ih =>
    intro p hp
    simp only [searchUp] at hp
    split at hp
    · injection hp with hp
      subst hp
      exact ⟨[], (c :: rev).reverse, ancestorsRev rev, rfl, rfl, by assumption, by simp⟩
    · rename_i hne
      obtain ⟨pre, d, post, hs, hp', he, hpre⟩ := ih p hp
      refine ⟨(c :: rev).reverse :: pre, d, post, by simp [ancestorsRev, hs], hp', he, ?_⟩
      intro d' hd'
      rcases List.mem_cons.mp hd' with rfl | hm
      · simpa using hne
      · exact hpre d' hm

open Ariadne.ConfigFile in
/-- `ConfigFileNotFound` is raised exactly when no ancestor up to the root contains the file, and it
    names the file -/
theorem config_file_not_found_iff (pathExists : String → Bool) (file : String) (rev : List String) :
    (∃ m, searchUp pathExists file rev = .notFound m) ↔ ∀ d ∈ ancestorsRev rev, pathExists (joinPath d file) = false := by
  induction rev with
  | nil =>
    simp only [searchUp, ancestorsRev, List.mem_singleton, forall_eq]
    cases pathExists (joinPath [] file) <;> simp
  | cons c rev ih =>
    simp only [searchUp, ancestorsRev, List.mem_cons, forall_eq_or_imp]
    cases h : pathExists (joinPath (c :: rev).reverse file)
    · simp [ih]
    · simp

open Ariadne.ConfigFile in
theorem config_file_not_found_message (pathExists : String → Bool) (file : String) (rev : List String) (m : String)
    (h : searchUp pathExists file rev = .notFound m) : m = "Config file " ++ file ++ " not found." := by
  induction rev with
  | nil =>
    simp only [searchUp] at h
    split at h
    · cases h
    · injection h with h; exact h.symm
  | cons c rev ih =>
    simp only [searchUp] at h
    split at h
    · cases h
    · exact ih h

open Ariadne.ConfigFile in
example : getConfigFilePath (fun p => p == "/a/pyproject.toml" || p == "/pyproject.toml") ["a", "b", "c"] "pyproject.toml"
    = .path "/a/pyproject.toml" := by decide
open Ariadne.ConfigFile in
example : getConfigFilePath (fun _ => false) ["a", "b"] "x.toml" = .notFound "Config file x.toml not found." := by decide
open Ariadne.ConfigFile in
example : getConfigFilePath (fun p => p == "/etc/cfg.toml") ["a", "b"] "/etc/cfg.toml" = .path "/etc/cfg.toml" := by decide

/-! ## 6. `assume_valid` makes the validity assertion vacuous (proved negative, finding C17-F3) -/

/-- **assert_valid_is_vacuous**: a schema that came out of `get_graphql_schema_from_path/_from_url`
    (built with `assume_valid=True`) passes `assert_valid_schema` however many errors validation would
    find, unless a plugin swapped the schema object. -/
theorem assert_valid_is_vacuous (fromPath : Bool) (o : SchemaOracle) (p : PluginsOracle) (sch : SchemaState)
    (h : loadSchema fromPath o = .ok sch) (hp : p.replaces = none) :
    assertValid (processSchema p sch) = .ok () := by
  have hc := (loadSchema_ok fromPath o sch h).1
  simp [processSchema, hp, assertValid, validationErrorsSeen, hc]

/-- consequently `main.client` never fails in the validity assertion -/
theorem client_never_fails_at_assertValid (r : ClientRun) (hp : r.plugins.replaces = none) (e : PyErr) :
    prepare r ≠ .error (.assertValid, e) := by
  intro h
  rcases prepare_error_cases r _ e h with ⟨_, _, h, _⟩ | ⟨_, _, ⟨_, h⟩ | ⟨sch, hl, ⟨_, h⟩ | ⟨_, ⟨ha, _⟩ | ⟨_, ⟨_, _, h⟩ | ⟨h, _⟩⟩⟩⟩⟩
  all_goals first
    | (cases h; done)
    | (rw [assert_valid_is_vacuous _ _ _ _ hl hp] at ha; cases ha)

/-- only a schema object that was NOT built with assume_valid can make the assertion fire — and then
    what escapes is graphql-core's bare `TypeError`, not an ariadne-codegen exception -/
theorem assertValid_error_untyped (s : SchemaState) (e : PyErr) (h : assertValid s = .error e) : e.typed = false := by
  simp only [assertValid] at h
  generalize validationErrorsSeen s = n at h
  by_cases hn : (n == 0) = true
  · simp [hn] at h
  · simp only [hn] at h
    injection h with h
    subst h
    rfl

/-! ## 7. C17 at full strength, its refutation, and the part that holds -/

/-- the configuration violates a documented constraint: reading it fails before the dataclass exists
    (no section, a scalar without type, a section / scalars table that is no table ...), or the
    dataclass does not meet `Documented` -/
def ConfigInvalid (env : Env) (cfg : Dict) : Prop :=
  match (readRawClient env cfg).result with
  | .error _ => True
  | .ok s => ¬ Documented env s

/-- a graphql source with a file that does not parse on its own, or whose concatenation does not
    parse (in particular: no graphql file at all) -/
def BadSource (s : Source) : Prop :=
  (∃ p t, HasFile s.root p (.text t) ∧ s.parses t = false) ∨
  (∃ t, loadText s.parses s.root = .ok t ∧ s.parses t = false)

def SyntaxInvalid (r : ClientRun) : Prop :=
  ∃ s, (getClientSettings r.env r.cfg).result = .ok s ∧
    ((s.schemaPath.truthy = true ∧ BadSource r.schema.src) ∨ (s.queriesPath.truthy = true ∧ BadSource r.queries.src))

/-- graphql-core cannot build the schema, or validation (SDL + type-system rules) finds errors -/
def SchemaInvalid (r : ClientRun) : Prop := r.schema.buildError.isSome = true ∨ r.schema.trueErrors ≠ 0

def OperationInvalid (r : ClientRun) : Prop :=
  ∃ s, (getClientSettings r.env r.cfg).result = .ok s ∧ s.queriesPath.truthy = true ∧ r.queries.validationErrors ≠ []

/-- the four classes of invalid input the property names -/
def Invalid (r : ClientRun) : Prop :=
  ConfigInvalid r.env r.cfg ∨ SyntaxInvalid r ∨ SchemaInvalid r ∨ OperationInvalid r

/-- the modelled domain (`Valid` of the conventions): an introspection transport that answers (C19's
    subject), plugins that do not swap the schema object, a `plugins` option that is a list of strings
    and an import system that answers, graphql files that can be read as UTF-8 text (no directory
    named like a graphql file) -/
structure InDomain (r : ClientRun) : Prop where
  remote : ∀ c, r.schema.remote ≠ .raw c
  plugins : r.plugins.replaces = none
  lookups : LookupsTame r.plugins
  pluginList : ∀ s, (getClientSettings r.env r.cfg).result = .ok s →
      ∃ items, s.plugins = .list items ∧ ∀ x ∈ items, x.isStr = true
  readableSchema : AllReadable r.schema.src.root
  readableQueries : AllReadable r.queries.src.root

/-- fails with one of ariadne-codegen's exception classes, before anything was written -/
def RejectedUpFront (o : Outcome) : Prop := ∃ ph e, o.result = .error (ph, e) ∧ e.typed = true ∧ o.log = []

/-- **C17 at full strength** (the property as stated) -/
def C17_full : Prop := ∀ r : ClientRun, InDomain r → Invalid r → RejectedUpFront (client r)

/-- complement of the finding triggers -/
def Supported (r : ClientRun) : Prop :=
  ¬ (trigInvalidSchemaAssumed r.schema r.plugins = true ∨
     trigSchemaBuildTypeError r.schema = true ∨ trigFragmentGenError r.queries = true ∨
     trigNoGraphqlFiles r = true ∨ trigClassSubstring r.env r.cfg = true ∨
     trigIllTypedInternal r.env r.cfg = true ∨ trigJoinedNotParsable r = true)

/-! ### witnesses (each is replayed on the real code by harness/c17.py, corpus/C17) -/

def wCfg (extra : Dict) : Dict :=
  mkCfg ([("schema_path", .str "schema.graphql"), ("queries_path", .str "queries.graphql"),
          ("target_package_path", .str "/w/out")] ++ extra)

def wOp : OpInfo := { name := some "GetA", moduleName := "get_a" }

def wSrc (path : String) : Source := { root := .file path (.text "ok"), parses := toyParses }

/-- a valid run, to be damaged in one place per witness -/
def wBase : ClientRun := {
  env := exEnv, cfg := wCfg [],
  schema := { src := wSrc "/w/schema.graphql" },
  queries := { src := wSrc "/w/queries.graphql", ops := [wOp] },
  pkgDirExists := false }

/-- F3: interface not implemented (one validation error) — accepted, the whole package is written -/
def wInvalidSchema : ClientRun := { wBase with schema := { wBase.schema with trueErrors := 1 } }
/-- F4: unknown type — graphql-core's TypeError escapes -/
def wUnknownType : ClientRun := { wBase with schema := { wBase.schema with buildError := some "Unknown type: 'Missing'.", trueErrors := 1 } }
/-- F2 (fixed by /repo 0686a80): `fragments_module_name = "not-valid"` — was accepted by the
    settings, is rejected now (`C17_F2_witness_now_ok` below) -/
def wFragmentsModule : ClientRun :=
  { wBase with env := badEnv, cfg := wCfg [("fragments_module_name", .str "not-valid")] }
/-- F6: a schema directory without graphql files -/
def wNoFiles : ClientRun :=
  { wBase with schema := { src := { root := .dir "/w/schema" [.file "readme.txt" (.text "x")], parses := toyParses } } }
/-- F5: malformed @mixin on a fragment that ends up in the fragments module -/
def wMixinFragment : ClientRun :=
  { wBase with queries := { wBase.queries with
      frags := [{ name := "UF", genError := some (.codegen "ParsingError" "Required arguments (from, import) not found.") }] } }
/-- F8: `client_name = 5` — a name that cannot be used as an identifier, reported as bare AttributeError -/
def wIllTypedName : ClientRun := { wBase with cfg := wCfg [("client_name", .int 5)] }
/-- F9: two schema files that each parse (`ok`) whose concatenation does not (`ok\nok` parses for the
    toy predicate, so the second file is `{\n}`: `ok\n{\n}` does not) -/
def wJoined : ClientRun :=
  { wBase with schema := { src := { root := .dir "/w/schema" [.file "a.graphql" (.text "ok"), .file "b.graphql" (.text "{\n}")],
                                    parses := toyParses } } }

theorem readable_file (p t : String) : AllReadable (.file p (.text t)) := by
  intro p' c h
  simp only [HasFile] at h
  exact ⟨t, h.2⟩

theorem inDomain_of_accepted (r : ClientRun) (h : isOk (getClientSettings r.env r.cfg).result = true)
    (hpl : ∀ s, (getClientSettings r.env r.cfg).result = .ok s → s.plugins = .list [])
    (hr : r.schema.remote = .ok) (hp : r.plugins.replaces = none) (hl : LookupsTame r.plugins)
    (h1 : AllReadable r.schema.src.root) (h2 : AllReadable r.queries.src.root) : InDomain r :=
  ⟨fun c hc => (by rw [hr] at hc; cases hc), hp, hl,
   fun s hs => ⟨[], hpl s hs, by simp⟩, h1, h2⟩

theorem tame_default : LookupsTame ({} : PluginsOracle) := by
  intro s cls h; cases h

theorem plugins_of (r : ClientRun) (v : TV)
    (h : (getClientSettings r.env r.cfg).result.toOption.map (·.plugins) = some v) :
    ∀ s, (getClientSettings r.env r.cfg).result = .ok s → s.plugins = v := by
  intro s hs
  rw [hs] at h
  simpa [Except.toOption] using h

theorem wBase_accepted : isOk (client wBase).result = true ∧ (client wBase).log ≠ [] := ⟨by decide, by decide⟩
theorem wBase_inDomain : InDomain wBase :=
  inDomain_of_accepted _ (by decide) (plugins_of _ _ (by decide)) rfl rfl tame_default (readable_file _ _) (readable_file _ _)

theorem invalid_schema_accepted :
    Invalid wInvalidSchema ∧ InDomain wInvalidSchema ∧ isOk (client wInvalidSchema).result = true :=
  ⟨Or.inr (Or.inr (Or.inl (Or.inr (by decide)))),
   inDomain_of_accepted _ (by decide) (plugins_of _ _ (by decide)) rfl rfl tame_default (readable_file _ _) (readable_file _ _),
   by decide⟩

theorem unknown_type_untyped :
    Invalid wUnknownType ∧ (client wUnknownType).result = .error (.loadSchema, .raw "TypeError") :=
  ⟨Or.inr (Or.inr (Or.inl (Or.inl (by decide)))), by decide⟩

theorem settings_field (r : ClientRun) {α : Type} (f : ClientSettings → α) (a : α)
    (h : (getClientSettings r.env r.cfg).result.toOption.map f = some a) :
    ∃ s, (getClientSettings r.env r.cfg).result = .ok s ∧ f s = a := by
  cases hr : (getClientSettings r.env r.cfg).result with
  | error e => simp [hr, Except.toOption] at h
  | ok s => exact ⟨s, rfl, by simpa [hr, Except.toOption] using h⟩

theorem no_files_untyped :
    Invalid wNoFiles ∧ (client wNoFiles).result = .error (.loadSchema, .raw "GraphQLSyntaxError") := by
  refine ⟨Or.inr (Or.inl ?_), by decide⟩
  obtain ⟨s, hs, hf⟩ := settings_field wNoFiles (fun s => s.schemaPath.truthy) true (by decide)
  exact ⟨s, hs, Or.inl ⟨hf, Or.inr ⟨"", by decide, by decide⟩⟩⟩

/-- finding C17-F9 in the model: every file parses, the concatenation does not — graphql-core's bare
    `GraphQLSyntaxError` escapes from the second `parse` -/
theorem joined_untyped :
    Invalid wJoined ∧ (client wJoined).result = .error (.loadSchema, .raw "GraphQLSyntaxError") ∧
    trigJoinedNotParsable wJoined = true := by
  refine ⟨Or.inr (Or.inl ?_), by decide, by decide⟩
  obtain ⟨s, hs, hf⟩ := settings_field wJoined (fun s => s.schemaPath.truthy) true (by decide)
  exact ⟨s, hs, Or.inl ⟨hf, Or.inr ⟨"ok\n{\n}", by decide, by decide⟩⟩⟩

/-- finding C17-F8 in the model: a number as client name violates "names usable as identifiers" and
    comes out as a bare `AttributeError` -/
theorem illtyped_name_untyped :
    Invalid wIllTypedName ∧ (client wIllTypedName).result = .error (.settings, .config (.internal "AttributeError")) ∧
    trigIllTypedInternal wIllTypedName.env wIllTypedName.cfg = true := by
  refine ⟨Or.inl ?_, by decide, by decide⟩
  unfold ConfigInvalid
  cases hr : (readRawClient wIllTypedName.env wIllTypedName.cfg).result with
  | error e => trivial
  | ok s =>
    simp only
    intro d
    obtain ⟨n, hn, _⟩ := d.clientName
    have : (readRawClient wIllTypedName.env wIllTypedName.cfg).result.toOption.map (·.clientName) = some (.int 5) := by decide
    rw [hr] at this
    simp only [Except.toOption, Option.map, Option.some.injEq] at this
    rw [this] at hn
    cases hn

/-- **C17_full_false**: the property as stated does not hold of the code (model): an invalid schema
    is accepted and a package is written (finding C17-F3). -/
theorem C17_full_false : ¬ C17_full := by
  intro h
  obtain ⟨hinv, hdom, hok⟩ := invalid_schema_accepted
  obtain ⟨ph, e, herr, _⟩ := h wInvalidSchema hdom hinv
  rw [herr] at hok
  cases hok

/-! ### "no side effects" for every failure, not only for the four classes -/

/-- a failing run leaves the target untouched -/
def FailsClean (o : Outcome) : Prop := ∀ x, o.result = .error x → o.log = []

def NoSideEffects_full : Prop := ∀ r : ClientRun, FailsClean (client r)

/-- finding C17-F5: a ParsingError raised by the fragments step comes after `mkdir` and two writes -/
theorem NoSideEffects_full_false : ¬ NoSideEffects_full := by
  intro h
  have := h wMixinFragment (.generateWrite, .codegen "ParsingError" "Required arguments (from, import) not found.") (by decide)
  revert this
  decide

theorem generate_no_late_error (r : ClientRun) (p : Prepared) (ht : trigFragmentGenError r.queries = false)
    (hc : ∀ st, r.codeError st = none) (e : PyErr) : (generate r p).result ≠ .error (.generateWrite, e) := by
  by_cases hd : (!(duplicates (allFileNames r.env p.settings p.resultFiles)).isEmpty) = true
  · simp [generate, hd]
  · simp only [generate, hd]
    have hfr : fragmentsStep (if p.settings.queriesPath.truthy = true then r.queries.frags else []) = none ∨
        fragmentsStep (if p.settings.queriesPath.truthy = true then r.queries.frags else []) = some none := by
      split
      · exact fragmentsStep_of_no_trigger _ ht
      · exact Or.inl rfl
    have hclean := runSteps_clean r.codeError hc _ (plannedSteps_clean r.env p.settings p.schema p.resultFiles _ hfr)
      (if r.pkgDirExists = true then [] else [Effect.mkdir])
    generalize runSteps r.codeError _ _ = rs at hclean ⊢
    obtain ⟨oe, log⟩ := rs
    simp at hclean
    subst hclean
    simp

/-- **NoSideEffects_partial**: outside finding C17-F5 (and with black accepting every emitted
    module) EVERY failure of `main.client` — not only those of the four classes — leaves the target
    untouched. -/
theorem NoSideEffects_partial (r : ClientRun) (ht : trigFragmentGenError r.queries = false)
    (hc : ∀ st, r.codeError st = none) : FailsClean (client r) := by
  intro x hx
  unfold client at hx ⊢
  cases hp : prepare r with
  | error y => rfl
  | ok p =>
    simp only [hp] at hx ⊢
    rcases generate_spec r p with ⟨hl, _⟩ | ⟨e', he'⟩ | ⟨fs, hfs⟩
    · exact hl
    · exact absurd he' (generate_no_late_error r p ht hc e')
    · rw [hfs] at hx; cases hx

example : trigFragmentGenError wBase.queries = false ∧ ∀ st, wBase.codeError st = none := ⟨by decide, fun _ => rfl⟩

/-! ### the part of C17 that holds -/

theorem finalize_keeps (env : Env) (s0 : ClientSettings) :
    (finalizeClient env s0).fragmentsModuleName = s0.fragmentsModuleName ∧
    (finalizeClient env s0).baseClientName = (baseClientData env s0).1 ∧
    (finalizeClient env s0).baseClientFilePath = (baseClientData env s0).2 ∧
    (finalizeClient env s0).schemaPath = s0.schemaPath ∧ (finalizeClient env s0).queriesPath = s0.queriesPath :=
  ⟨rfl, rfl, rfl, rfl, rfl⟩

/-- every `ConfigError` is an ariadne-codegen exception or a bare Python exception -/
theorem typed_or_internal (e : ConfigError) : e.typed = true ∨ ∃ x, e = .internal x := by
  cases e <;> first | (left; rfl) | (right; exact ⟨_, rfl⟩)

/-- a source that loads is not a bad source -/
theorem loaded_not_bad (s : Source) (h : loadSource s = .ok ()) : ¬ BadSource s := by
  obtain ⟨t, ht, hp⟩ := (loadSource_ok_iff s).mp h
  rintro (⟨p, x, hf, hx⟩ | ⟨t', ht', hp'⟩)
  · obtain ⟨y, hy, hpy⟩ := loadSource_ok_files s h p _ hf
    injection hy with hy
    subst hy
    rw [hx] at hpy
    cases hpy
  · rw [ht] at ht'
    injection ht' with ht'
    subst ht'
    rw [hp] at hp'
    cases hp'

/-- outside the finding triggers, an input on which every phase up to the validation of the
    operations succeeds is not invalid -/
theorem passes_contradict (r : ClientRun) (hd : InDomain r) (hs : Supported r) (hi : Invalid r)
    (s : ClientSettings) (sch : SchemaState)
    (h1 : (getClientSettings r.env r.cfg).result = .ok s)
    (h2 : loadSchema s.schemaPath.truthy r.schema = .ok sch)
    (h5 : s.queriesPath.truthy = true → loadQueries r.queries = .ok ()) : False := by
  simp only [Supported, not_or] at hs
  obtain ⟨hF3, hF4, _, hF6, hF7, _, _⟩ := hs
  rcases hi with hc | hsyn | hsch | hop
  · -- configuration
    unfold ConfigInvalid at hc
    have h1' := h1
    simp only [getClientSettings, bind, Except.bind] at h1'
    cases hraw : (readRawClient r.env r.cfg).result with
    | error e => simp [hraw] at h1'
    | ok s0 =>
      simp only [hraw] at h1' hc
      have hnv := (accepted_iff r.env s0).mp ⟨s, h1'⟩
      have hs' : s = finalizeClient r.env s0 := by
        have := valid_accepted r.env s0 hnv
        rw [this] at h1'
        injection h1' with h
        exact h.symm
      obtain ⟨k1, k2, k3, _, _⟩ := finalize_keeps r.env s0
      apply hc
      apply documented_of_no_violation r.env s0 hnv
      intro p hp hdef
      simp only [trigClassSubstring, h1] at hF7
      rw [hs', k2, k3, hp] at hF7
      have hpp : (TV.str p).pyStr = p := rfl
      rw [hpp] at hF7
      cases hv : classDeclared r.env p (baseClientData r.env s0).1.pyStr with
      | true => rfl
      | false => simp [hv] at hF7
  · -- syntax
    obtain ⟨s', hs', hbad⟩ := hsyn
    rw [h1] at hs'
    injection hs' with hs'
    subst hs'
    rcases hbad with ⟨hp, hb⟩ | ⟨hq, hb⟩
    · rw [hp] at h2
      exact loaded_not_bad _ (loadSchema_true_source _ _ h2) hb
    · exact loaded_not_bad _ (loadQueries_ok _ (h5 hq)).1 hb
  · -- schema
    have hb := (loadSchema_ok _ _ _ h2).2.2.2
    rcases hsch with hsome | hne
    · simp [hb] at hsome
    · apply hF3
      simp [trigInvalidSchemaAssumed, hb, hd.plugins, codeAssumeValid, hne]
  · -- operations
    obtain ⟨s', hs', hq, hv⟩ := hop
    rw [h1] at hs'
    injection hs' with hs'
    subst hs'
    exact hv (loadQueries_ok _ (h5 hq)).2

/-- **C17_partial**: outside the seven finding triggers, every input of the four invalid classes
    (configuration violating a documented constraint — with option values of every kind —, a graphql
    file that does not parse on its own or files whose concatenation does not parse, an invalid schema,
    an operation invalid for the schema) makes `main.client` fail with one of ariadne-codegen's own
    exception classes and an EMPTY effect log.  (For invalid schemas the statement is vacuous: every
    invalid schema lies inside the triggers of C17-F3/F4 — that is the finding.) -/
theorem C17_partial (r : ClientRun) (hd : InDomain r) (hs : Supported r) (hi : Invalid r) :
    RejectedUpFront (client r) := by
  have hs' := hs
  simp only [Supported, not_or] at hs'
  obtain ⟨_, hF4, _, hF6, _, hF8, hF9⟩ := hs'
  have hbuild : r.schema.buildError = none := by
    simp only [trigSchemaBuildTypeError] at hF4
    cases hb : r.schema.buildError with
    | none => rfl
    | some m => simp [hb] at hF4
  unfold client
  cases hp : prepare r with
  | ok p =>
    obtain ⟨s, sch, h1, h2, _, _, h5, _⟩ := prepare_ok_cases r p hp
    exact (passes_contradict r hd hs hi s sch h1 h2 h5).elim
  | error x =>
    obtain ⟨ph, e⟩ := x
    refine ⟨ph, e, rfl, ?_, rfl⟩
    rcases prepare_error_cases r ph e hp with ⟨ce, hce, _, he⟩ | ⟨s, h1, ⟨hl, _⟩ | ⟨sch, h2, ⟨hpl, _⟩ | ⟨_, ⟨ha, _⟩ | ⟨_, ⟨hq, hlq, _⟩ | ⟨_, h5⟩⟩⟩⟩⟩
    · subst he
      rcases typed_or_internal ce with h | ⟨x, rfl⟩
      · exact h
      · exfalso; apply hF8; simp [trigIllTypedInternal, hce]
    · have hjoin : s.schemaPath.truthy = true → ∀ t, loadText r.schema.src.parses r.schema.src.root = .ok t →
          r.schema.src.parses t = true := by
        intro hsp
        apply joined_ok_of_not_triggered
        · cases hemp : r.schema.src.files.isEmpty with
          | false => rfl
          | true => exfalso; apply hF6; simp [trigNoGraphqlFiles, h1, hsp, hemp]
        · cases hj : joinedBroken r.schema.src with
          | false => rfl
          | true => exfalso; apply hF9; simp [trigJoinedNotParsable, h1, hsp, hj]
      exact loadSchema_error_typed _ _ e hl (fun _ => hd.readableSchema) hjoin hd.remote hbuild
    · exact resolvePlugins_error_typed _ _ e (hd.pluginList s h1) hd.lookups hpl
    · rw [assert_valid_is_vacuous _ _ _ _ h2 hd.plugins] at ha; cases ha
    · have hjoin : ∀ t, loadText r.queries.src.parses r.queries.src.root = .ok t → r.queries.src.parses t = true := by
        apply joined_ok_of_not_triggered
        · cases hemp : r.queries.src.files.isEmpty with
          | false => rfl
          | true => exfalso; apply hF6; simp [trigNoGraphqlFiles, h1, hq, hemp]
        · cases hj : joinedBroken r.queries.src with
          | false => rfl
          | true => exfalso; apply hF9; simp [trigJoinedNotParsable, h1, hq, hj]
      exact loadQueries_error_typed _ e hlq hd.readableQueries hjoin
    · exact (passes_contradict r hd hs hi s sch h1 h2 h5).elim

/-- non-vacuity of `C17_partial`: an invalid operation on an otherwise valid, supported run -/
def wInvalidOperation : ClientRun :=
  { wBase with queries := { wBase.queries with validationErrors := ["Cannot query field 'zzz' on type 'Query'."] } }

theorem wInvalidOperation_hyps : InDomain wInvalidOperation ∧ Supported wInvalidOperation ∧ Invalid wInvalidOperation := by
  refine ⟨inDomain_of_accepted _ (by decide) (plugins_of _ _ (by decide)) rfl rfl tame_default (readable_file _ _) (readable_file _ _),
    by simp only [Supported]; decide, Or.inr (Or.inr (Or.inr ?_))⟩
  obtain ⟨s, hs, hf⟩ := settings_field wInvalidOperation (fun s => s.queriesPath.truthy) true (by decide)
  exact ⟨s, hs, hf, by decide⟩

example : (client wInvalidOperation).result =
    .error (.loadQueries, .codegen "InvalidOperationForSchema" "Cannot query field 'zzz' on type 'Query'.") ∧
    (client wInvalidOperation).log = [] := ⟨by decide, by decide⟩

/-- non-vacuity on the syntax class: a queries DIRECTORY whose two files are each invalid but jointly
    valid lies in the theorem's region and is rejected up front naming the first file -/
def wSplitQueries : ClientRun :=
  { wBase with queries := { wBase.queries with
      src := { root := .dir "queries.graphql" [.file "b_rest.graphql" (.text "}"), .file "a_users.graphql" (.text "{")],
               parses := toyParses } } }

theorem readable_texts (path : String) (ns : List (String × String)) :
    AllReadable (.dir path (ns.map fun nt => FsNode.file nt.1 (.text nt.2))) := by
  intro p c h
  obtain ⟨parts, hin, _⟩ := h
  have hm := (mem_walkList [] _ ⟨parts, c⟩).mpr hin
  clear hin
  induction ns with
  | nil => simp [walkList] at hm
  | cons nt rest ih =>
    simp only [List.map_cons, walkList, List.mem_append, walkNode] at hm
    rcases hm with hm | hm
    · split at hm
      · simp at hm; exact ⟨nt.2, hm.2⟩
      · simp at hm
    · exact ih hm

theorem wSplitQueries_ok :
    InDomain wSplitQueries ∧ Supported wSplitQueries ∧ Invalid wSplitQueries ∧
    (client wSplitQueries).result = .error (.loadQueries,
      .codegen "InvalidGraphqlSyntax" "Invalid graphql syntax in file queries.graphql/a_users.graphql") ∧
    (client wSplitQueries).log = [] := by
  refine ⟨inDomain_of_accepted _ (by decide) (plugins_of _ _ (by decide)) rfl rfl tame_default (readable_file _ _)
      (readable_texts "queries.graphql" [("b_rest.graphql", "}"), ("a_users.graphql", "{")]),
    by simp only [Supported]; decide, Or.inr (Or.inl ?_), by decide, by decide⟩
  obtain ⟨s, hs, hf⟩ := settings_field wSplitQueries (fun s => s.queriesPath.truthy) true (by decide)
  refine ⟨s, hs, Or.inr ⟨hf, Or.inl ⟨"queries.graphql/a_users.graphql", "{", ?_, by decide⟩⟩⟩
  exact (mem_filesRead_iff _ _ _).mp (by decide)

/-- the union of the theorem region and the finding regions is everything (by definition) -/
theorem supported_or_triggered (r : ClientRun) :
    Supported r ∨ trigInvalidSchemaAssumed r.schema r.plugins = true ∨
      trigSchemaBuildTypeError r.schema = true ∨ trigFragmentGenError r.queries = true ∨
      trigNoGraphqlFiles r = true ∨ trigClassSubstring r.env r.cfg = true ∨
      trigIllTypedInternal r.env r.cfg = true ∨ trigJoinedNotParsable r = true := by
  unfold Supported
  by_cases h : (trigInvalidSchemaAssumed r.schema r.plugins = true ∨
     trigSchemaBuildTypeError r.schema = true ∨ trigFragmentGenError r.queries = true ∨
     trigNoGraphqlFiles r = true ∨ trigClassSubstring r.env r.cfg = true ∨
     trigIllTypedInternal r.env r.cfg = true ∨ trigJoinedNotParsable r = true)
  · exact Or.inr h
  · exact Or.inl h

/-- the witnesses sit inside their triggers -/
example : trigInvalidSchemaAssumed wInvalidSchema.schema wInvalidSchema.plugins = true := by decide
example : trigSchemaBuildTypeError wUnknownType.schema = true := by decide
example : trigNoGraphqlFiles wNoFiles = true := by decide
example : trigFragmentGenError wMixinFragment.queries = true := by decide

/-! ### how narrow the region of C17-F8 is: sections whose values have the documented kinds never
      end in a bare Python exception -/

def scalarOk : TV → Bool
  | .table d => d.all (fun kv => kv.2.isStr)
  | _ => false

def scalarsOk : TV → Bool
  | .table kvs => kvs.all (fun kv => scalarOk kv.2)
  | _ => false

/-- the kind each option is documented to take (dataclass annotations, README); options without a
    kind constraint that matters to the settings code are `true` -/
def kindOk (k : String) (v : TV) : Bool :=
  if k = "remote_schema_headers" then strTable v
  else if k = "files_to_include" then strList v
  else if k = "scalars" then scalarsOk v
  else if k = "include_comments" then v.isStr || v.isBool
  else if k = "async_client" ∨ k = "opentelemetry_client" then v.isBool
  else if k ∈ ["schema_path", "queries_path", "target_package_name", "target_package_path", "client_name",
               "client_file_name", "base_client_name", "base_client_file_path", "enums_module_name",
               "input_types_module_name", "fragments_module_name"] then v.isStr
  else true

/-- every option of the section that is present has a value of its documented kind -/
def SectionWellTyped (sec : Dict) : Prop := ∀ k v, TV.lookup k sec = some v → kindOk k v = true

theorem objectNameCheck_str (v : TV) (h : v.isStr = true) : objectNameCheck v = none := by
  cases v <;> simp [TV.isStr] at h <;> rfl

theorem lookup_mem (k : String) (v : TV) (l : List (String × TV)) (h : TV.lookup k l = some v) : (k, v) ∈ l := by
  induction l with
  | nil => simp [TV.lookup] at h
  | cons kv rest ih =>
    obtain ⟨k', v'⟩ := kv
    by_cases hk : k' = k
    · simp [TV.lookup, hk] at h; simp [hk, h]
    · simp [TV.lookup, hk] at h; simp [ih h]

theorem parseScalar_welltyped (n : String) (v : TV) (h : scalarOk v = true) (e : ConfigError)
    (he : parseScalar n v = .error e) : e = .scalarMissingType := by
  cases v <;> simp [scalarOk] at h
  case table d =>
    simp only [parseScalar] at he
    cases ht : TV.lookup "type" d with
    | none => simp [ht] at he; exact he.symm
    | some t =>
      simp only [ht] at he
      have hstr : ∀ k x, TV.lookup k d = some x → x.isStr = true := fun k x hx => h k x (lookup_mem k x d hx)
      rw [objectNameCheck_str t (hstr "type" t ht)] at he
      have hopt : ∀ k, optObjectNameCheck (TV.lookup k d) = none := by
        intro k
        cases hk : TV.lookup k d with
        | none => rfl
        | some x =>
          simp only [optObjectNameCheck]
          split
          · exact objectNameCheck_str x (hstr k x hk)
          · rfl
      simp [hopt] at he

theorem parseScalars_welltyped (kvs : List (String × TV)) (h : kvs.all (fun kv => scalarOk kv.2) = true) (e : ConfigError)
    (he : parseScalars kvs = .error e) : e = .scalarMissingType := by
  induction kvs with
  | nil => simp [parseScalars] at he
  | cons kv rest ih =>
    obtain ⟨n, d⟩ := kv
    simp only [List.all_cons, Bool.and_eq_true] at h
    simp only [parseScalars] at he
    cases hp : parseScalar n d with
    | error e' =>
      simp only [hp] at he
      injection he with he
      subst he
      exact parseScalar_welltyped n d h.1 _ hp
    | ok sd =>
      simp only [hp] at he
      cases hr : parseScalars rest with
      | error e' =>
        simp only [hr] at he
        injection he with he
        subst he
        exact ih h.2 hr
      | ok ss => simp [hr] at he

theorem scalarsOf_welltyped (sec : Dict) (hw : SectionWellTyped sec) (e : ConfigError) (he : scalarsOf sec = .error e) :
    e = .scalarMissingType := by
  unfold scalarsOf at he
  cases hl : TV.lookup "scalars" sec with
  | none => simp [hl, bind, Except.bind, parseScalars] at he
  | some v =>
    have hk := hw "scalars" v hl
    simp only [kindOk] at hk
    have hk' : scalarsOk v = true := by simpa using hk
    cases v <;> simp [scalarsOk] at hk'
    case table kvs =>
      simp only [hl, bind, Except.bind] at he
      exact parseScalars_welltyped kvs (by simpa [List.all_eq_true] using hk') e he

/-- the section the dataclass constructor sees keeps the documented kinds (the two item assignments put
    a table and a string) -/
theorem field_kind (env : Env) (sec : Dict) (hw : SectionWellTyped sec) (scalars : List ScalarData) (k : String) (dflt : TV)
    (hknown : knownClientKey k = true) (hns : k ≠ "scalars") (hd : kindOk k dflt = true)
    (hstrict : k = "include_comments" → False) :
    kindOk k (getV ((sectionAfter sec scalars).filter (fun kv => knownClientKey kv.1)) k dflt) = true := by
  unfold getV
  rw [lookup_filter_key knownClientKey k hknown]
  have hne : k ≠ "include_comments" := fun h => hstrict h
  have : TV.lookup k (sectionAfter sec scalars) = TV.lookup k sec := by
    unfold sectionAfter
    split
    · rw [lookup_dictSet_ne k "include_comments" _ _ hne, lookup_dictSet_ne k "scalars" _ _ hns]
    · rw [lookup_dictSet_ne k "scalars" _ _ hns]
  rw [this]
  cases hl : TV.lookup k sec with
  | none => exact hd
  | some v => exact hw k v hl

theorem comments_field_kind (env : Env) (sec : Dict) (hw : SectionWellTyped sec) (scalars : List ScalarData) :
    (getV ((sectionAfter sec scalars).filter (fun kv => knownClientKey kv.1)) "include_comments" (.str "stable")).isStr = true := by
  unfold getV
  rw [lookup_filter_key knownClientKey "include_comments" (by decide)]
  unfold sectionAfter
  cases hl : TV.lookup "include_comments" sec with
  | none =>
    simp only []
    rw [lookup_dictSet_ne "include_comments" "scalars" _ _ (by decide), hl]
    rfl
  | some v =>
    have hk := hw "include_comments" v hl
    cases v <;> simp [kindOk, TV.isStr, TV.isBool] at hk
    case bool b => simp only []; rw [lookup_dictSet_eq]; rfl
    case str x =>
      simp only []
      rw [lookup_dictSet_ne "include_comments" "scalars" _ _ (by decide), hl]
      rfl

theorem buildClient_welltyped (env : Env) (sec : Dict) (hw : SectionWellTyped sec) (scalars : List ScalarData) :
    WellTyped (buildClient env (sectionAfter sec scalars) scalars) := by
  have F := fun k dflt hknown hns hd hstrict => field_kind env sec hw scalars k dflt hknown hns hd hstrict
  constructor
  · have := F "schema_path" (.str "") (by decide) (by decide) (by decide) (by decide); simp [kindOk] at this; exact this
  · have := F "remote_schema_headers" (.table []) (by decide) (by decide) (by decide) (by decide); simp [kindOk] at this; exact this
  · have := F "queries_path" (.str "") (by decide) (by decide) (by decide) (by decide); simp [kindOk] at this; exact this
  · have := F "target_package_name" (.str "graphql_client") (by decide) (by decide) (by decide) (by decide); simp [kindOk] at this; exact this
  · have := F "target_package_path" (.str env.cwd) (by decide) (by decide) (by simp [kindOk, TV.isStr]) (by decide); simp [kindOk] at this; exact this
  · have := F "client_name" (.str "Client") (by decide) (by decide) (by decide) (by decide); simp [kindOk] at this; exact this
  · have := F "client_file_name" (.str "client") (by decide) (by decide) (by decide) (by decide); simp [kindOk] at this; exact this
  · have := F "base_client_name" (.str "") (by decide) (by decide) (by decide) (by decide); simp [kindOk] at this; exact this
  · have := F "base_client_file_path" (.str "") (by decide) (by decide) (by decide) (by decide); simp [kindOk] at this; exact this
  · have := F "enums_module_name" (.str "enums") (by decide) (by decide) (by decide) (by decide); simp [kindOk] at this; exact this
  · have := F "input_types_module_name" (.str "input_types") (by decide) (by decide) (by decide) (by decide); simp [kindOk] at this; exact this
  · have := F "fragments_module_name" (.str "fragments") (by decide) (by decide) (by decide) (by decide); simp [kindOk] at this; exact this
  · have := F "async_client" (.bool true) (by decide) (by decide) (by decide) (by decide); simp [kindOk] at this; exact this
  · have := F "opentelemetry_client" (.bool false) (by decide) (by decide) (by decide) (by decide); simp [kindOk] at this; exact this
  · have := F "files_to_include" (.list []) (by decide) (by decide) (by decide) (by decide); simp [kindOk] at this; exact this

/-- **welltyped_section_typed**: a `[tool.ariadne-codegen]` section whose options have values of the
    documented kinds is either accepted or rejected with an ariadne-codegen exception — the bare Python
    exceptions of finding C17-F8 occur only for values of other kinds -/
theorem welltyped_section_typed (env : Env) (sec : Dict) (hw : SectionWellTyped sec) (e : ConfigError)
    (he : (getClientSettings env (mkCfg sec)).result = .error e) : e.typed = true := by
  simp only [getClientSettings, bind, Except.bind] at he
  rw [readRawClient_mkCfg] at he
  cases hsc : scalarsOf sec with
  | error e' =>
    simp only [hsc] at he
    injection he with he
    subst he
    rw [scalarsOf_welltyped sec hw e' hsc]
    rfl
  | ok scalars =>
    simp only [hsc] at he
    have hwt := buildClient_welltyped env sec hw scalars
    have hc := comments_field_kind env sec hw scalars
    unfold clientPostInit at he
    cases hf : firstError (evalClientCheck env (buildClient env (sectionAfter sec scalars) scalars)) ClientCheck.order with
    | none => simp [hf] at he
    | some e' =>
      simp only [hf] at he
      injection he with he
      subst he
      obtain ⟨pre, k, post, _, hk, _⟩ := firstError_some_split _ _ _ hf
      exact check_error_typed env _ hwt k _ hk

example : SectionWellTyped okSec := by
  intro k v h
  have hm := lookup_mem k v _ h
  simp only [okSec, List.mem_cons, Prod.mk.injEq, List.not_mem_nil, or_false] at hm
  rcases hm with ⟨rfl, rfl⟩ | ⟨rfl, rfl⟩ | ⟨rfl, rfl⟩ <;> decide

/-! ### the repaired configuration finding (regression theorem) and the open one -/

theorem configInvalid_of (env : Env) (cfg : Dict) (s : ClientSettings) (hraw : (readRawClient env cfg).result = .ok s)
    (hn : ¬ Documented env s) : ConfigInvalid env cfg := by
  unfold ConfigInvalid; rw [hraw]; exact hn

theorem raw_field (env : Env) (cfg : Dict) {α : Type} (f : ClientSettings → α) (a : α)
    (h : (readRawClient env cfg).result.toOption.map f = some a) :
    ∃ s, (readRawClient env cfg).result = .ok s ∧ f s = a := by
  cases hr : (readRawClient env cfg).result with
  | error e => simp [hr, Except.toOption] at h
  | ok s => exact ⟨s, rfl, by simpa [hr, Except.toOption] using h⟩

/-- **C17_F2_witness_now_ok** (regression theorem for the repaired finding C17-F2): the old witness
    — `fragments_module_name = "not-valid"`, an invalid configuration — now lies inside the region
    of `C17_partial` and satisfies the property: the command fails in the settings phase with
    `InvalidConfiguration` naming the value, and nothing was written. -/
theorem C17_F2_witness_now_ok :
    Invalid wFragmentsModule ∧ InDomain wFragmentsModule ∧ Supported wFragmentsModule ∧
    RejectedUpFront (client wFragmentsModule) ∧
    (client wFragmentsModule).result = .error (.settings, .config (.badIdentifier "not-valid")) := by
  have hinv : Invalid wFragmentsModule := by
    refine Or.inl ?_
    obtain ⟨s, hs, hn⟩ := raw_field wFragmentsModule.env wFragmentsModule.cfg (·.fragmentsModuleName) (.str "not-valid") (by decide)
    refine configInvalid_of _ _ s hs (fun d => ?_)
    obtain ⟨n, hn', hv⟩ := d.fragmentsModule
    rw [hn] at hn'
    injection hn' with hn'
    subst hn'
    revert hv
    decide
  have herr : (getClientSettings wFragmentsModule.env wFragmentsModule.cfg).result = .error (.badIdentifier "not-valid") := by decide
  have hdom : InDomain wFragmentsModule :=
    ⟨fun c hc => (by
        have h : wFragmentsModule.schema.remote = .ok := rfl
        rw [h] at hc; cases hc),
     rfl, tame_default,
     fun s hs => (by rw [herr] at hs; cases hs),
     readable_file _ _, readable_file _ _⟩
  have hsup : Supported wFragmentsModule := by simp only [Supported]; decide
  exact ⟨hinv, hdom, hsup, C17_partial _ hdom hsup hinv, by decide⟩

/-- F7: `base_client_name = "MyBase"` for a file that only declares `MyBaseClient` -/
def wClassPrefix : ClientRun :=
  { wBase with env := prefEnv,
               cfg := wCfg [("base_client_name", .str "MyBase"), ("base_client_file_path", .str "/w/custom_base.py")] }

theorem class_prefix_invalid_but_accepted :
    Invalid wClassPrefix ∧ isOk (client wClassPrefix).result = true ∧
    trigClassSubstring wClassPrefix.env wClassPrefix.cfg = true := by
  refine ⟨Or.inl ?_, by decide, by decide⟩
  obtain ⟨s, hs, hn⟩ := raw_field wClassPrefix.env wClassPrefix.cfg
    (fun s => (baseClientData wClassPrefix.env s)) (.str "MyBase", .str "/w/custom_base.py") (by decide)
  refine configInvalid_of _ _ s hs (fun d => ?_)
  obtain ⟨p, hp, hv⟩ := d.baseClientClass
  rw [hn] at hp hv
  injection hp with hp
  subst hp
  revert hv
  decide

end Ariadne.C17
