/-
  C17 — Invalid input is rejected up front, with a typed error and no side effects.

  Statements and final proofs.  Models: Model/Settings.lean (settings.py + config.py),
  Model/Pipeline.lean (phase order of main.client / main.graphql_schema with an effect log;
  graphql-core's verdicts are oracle inputs).  Lemmas: Proofs/Settings.lean.

  Shape (DESIGN.md §0):  `C17_full` is the property at full strength, `C17_full_false` refutes it
  from witnesses (one per open finding, each replayed on the real code by harness/c17.py),
  `C17_partial` proves it outside the finding triggers.  The settings clauses
  (`violation_typed`, `valid_accepted`, `unknown_keys_ignored`, `settings_pure`) and the phase
  clause (`no_write_before_generate`) are proved for all inputs without exception.
-/
import AriadneModel.Model.Settings
import AriadneModel.Model.Pipeline
import AriadneModel.Proofs.Settings
import AriadneModel.Proofs.Pipeline

set_option linter.unusedSimpArgs false
set_option linter.unusedVariables false

namespace Ariadne.C17
open Ariadne Ariadne.Settings Ariadne.Pipeline

/-! ## 1. Every documented single-constraint violation yields its exception (client settings) -/

/-- the constraint guarded by check `k` is violated (stated on the dataclass fields, the file
    system, the environment — not on the model's check functions) -/
def Violates (env : Env) (s : ClientSettings) : ClientCheck → Prop
  | .queriesRequired => s.queriesPath = "" ∧ s.enableCustomOperations = false
  | .schemaSource => s.schemaPath = "" ∧ s.remoteSchemaUrl = ""
  | .schemaPathExists => s.schemaPath ≠ "" ∧ env.pathExists s.schemaPath = false
  | .headers => ∃ kv ∈ s.remoteSchemaHeaders, ¬ HeaderResolvable env kv.2
  | .commentMode => Tables.commentsStrategies.contains s.includeComments = false
  | .queriesPathExists => env.pathExists s.queriesPath = false
  | .packageName => validName env s.targetPackageName = false
  | .packagePathDir => env.isDir s.targetPackagePath = false
  | .clientName => validName env s.clientName = false
  | .clientFileName => validName env s.clientFileName = false
  | .baseClientName => validName env (baseClientData env s).1 = false
  | .baseClientPathExists => env.pathExists (baseClientData env s).2 = false
  | .baseClientIsFile => env.isFile (baseClientData env s).2 = false
  | .baseClientClass => classDefinedIn env (baseClientData env s).2 (baseClientData env s).1 = false
  | .enumsModule => validName env s.enumsModuleName = false
  | .inputTypesModule => validName env s.inputTypesModuleName = false
  | .fragmentsModule => validName env s.fragmentsModuleName = false
  | .filesToInclude => ∃ f ∈ s.filesToInclude, env.isFile f = false

/-- the exception constructor that corresponds to check `k` (it names the offending value) -/
def Expected (env : Env) (s : ClientSettings) : ClientCheck → ConfigError → Prop
  | .queriesRequired, e => e = .missingFields s.missing
  | .schemaSource, e => e = .noSchemaSource
  | .schemaPathExists, e => e = .pathMissing s.schemaPath
  | .headers, e => ∃ kv ∈ s.remoteSchemaHeaders, e = .envVarMissing (lstripDollar kv.2)
  | .commentMode, e => e = .badCommentMode s.includeComments
  | .queriesPathExists, e => e = .pathMissing s.queriesPath
  | .packageName, e => e = .badIdentifier s.targetPackageName
  | .packagePathDir, e => e = .notDirectory s.targetPackagePath
  | .clientName, e => e = .badIdentifier s.clientName
  | .clientFileName, e => e = .badIdentifier s.clientFileName
  | .baseClientName, e => e = .badIdentifier (baseClientData env s).1
  | .baseClientPathExists, e => e = .pathMissing (baseClientData env s).2
  | .baseClientIsFile, e => e = .notFile (baseClientData env s).2
  | .baseClientClass, e => e = .classNotInFile (baseClientData env s).1 (baseClientData env s).2
  | .enumsModule, e => e = .badIdentifier s.enumsModuleName
  | .inputTypesModule, e => e = .badIdentifier s.inputTypesModuleName
  | .fragmentsModule, e => e = .badIdentifier s.fragmentsModuleName
  | .filesToInclude, e => ∃ f ∈ s.filesToInclude, env.isFile f = false ∧ e = .notFile f

/-- a check raises exactly when its constraint is violated -/
theorem check_raises_iff (env : Env) (s : ClientSettings) (k : ClientCheck) :
    (∃ e, evalClientCheck env s k = some e) ↔ Violates env s k := by
  cases k <;> simp only [evalClientCheck, Violates]
  case queriesRequired => cases hq : (s.queriesPath == "") <;> cases s.enableCustomOperations <;> simp_all
  case schemaSource => cases hq : (s.schemaPath == "") <;> cases hr : (s.remoteSchemaUrl == "") <;> simp_all
  case schemaPathExists => cases hq : (s.schemaPath == "") <;> cases env.pathExists s.schemaPath <;> simp_all
  case headers =>
    constructor
    · rintro ⟨e, he⟩
      apply Classical.byContradiction
      intro hn
      have : ∀ kv ∈ s.remoteSchemaHeaders, HeaderResolvable env kv.2 := by
        intro kv hkv
        apply Classical.byContradiction
        intro hnr
        exact hn ⟨kv, hkv, hnr⟩
      rw [(firstBadHeader_none_iff env _).mpr this] at he
      cases he
    · rintro ⟨kv, hkv, hnr⟩
      cases hb : firstBadHeader env s.remoteSchemaHeaders with
      | some e => exact ⟨e, rfl⟩
      | none => exact absurd ((firstBadHeader_none_iff env _).mp hb kv hkv) hnr
  case commentMode => cases Tables.commentsStrategies.contains s.includeComments <;> simp
  case queriesPathExists => cases env.pathExists s.queriesPath <;> simp
  case packageName => exact identCheck_some_iff env _
  case packagePathDir => cases env.isDir s.targetPackagePath <;> simp
  case clientName => exact identCheck_some_iff env _
  case clientFileName => exact identCheck_some_iff env _
  case baseClientName => exact identCheck_some_iff env _
  case baseClientPathExists => cases env.pathExists (baseClientData env s).2 <;> simp
  case baseClientIsFile => cases env.isFile (baseClientData env s).2 <;> simp
  case baseClientClass => cases classDefinedIn env (baseClientData env s).2 (baseClientData env s).1 <;> simp
  case enumsModule => exact identCheck_some_iff env _
  case inputTypesModule => exact identCheck_some_iff env _
  case fragmentsModule => exact identCheck_some_iff env _
  case filesToInclude =>
    constructor
    · rintro ⟨e, he⟩
      obtain ⟨f, hf, hnf, _⟩ := firstNonFile_some env _ e he
      exact ⟨f, hf, hnf⟩
    · rintro ⟨f, hf, hnf⟩
      cases hb : firstNonFile env s.filesToInclude with
      | some e => exact ⟨e, rfl⟩
      | none =>
        have := (firstNonFile_none_iff env _).mp hb f hf
        simp [hnf] at this

/-- what a check raises is the corresponding constructor, carrying the offending value -/
theorem check_error_expected (env : Env) (s : ClientSettings) (k : ClientCheck) (e : ConfigError)
    (h : evalClientCheck env s k = some e) : Expected env s k e := by
  cases k <;> simp only [evalClientCheck, Expected] at h ⊢
  case queriesRequired => split at h <;> simp_all
  case schemaSource => split at h <;> simp_all
  case schemaPathExists => split at h <;> simp_all
  case headers => exact firstBadHeader_some env _ e h
  case commentMode => split at h <;> simp_all
  case queriesPathExists => split at h <;> simp_all
  case packageName => exact identCheck_eq env _ e h
  case packagePathDir => split at h <;> simp_all
  case clientName => exact identCheck_eq env _ e h
  case clientFileName => exact identCheck_eq env _ e h
  case baseClientName => exact identCheck_eq env _ e h
  case baseClientPathExists => split at h <;> simp_all
  case baseClientIsFile => split at h <;> simp_all
  case baseClientClass => split at h <;> simp_all
  case enumsModule => exact identCheck_eq env _ e h
  case inputTypesModule => exact identCheck_eq env _ e h
  case fragmentsModule => exact identCheck_eq env _ e h
  case filesToInclude => exact firstNonFile_some env _ e h

/-- every exception a check raises is an ariadne-codegen exception class
    (`InvalidConfiguration`, or `MissingConfiguration` for the missing `queries_path`) -/
theorem check_error_typed (env : Env) (s : ClientSettings) (k : ClientCheck) (e : ConfigError)
    (h : evalClientCheck env s k = some e) : e.typed = true := by
  have hx := check_error_expected env s k e h
  cases k <;> simp only [Expected] at hx
  case headers => obtain ⟨kv, _, rfl⟩ := hx; rfl
  case filesToInclude => obtain ⟨f, _, _, rfl⟩ := hx; rfl
  all_goals (subst hx; rfl)

/-- **violation_typed** (must): if the constraint of check `k` is violated and no earlier check of
    `__post_init__` fires, the settings are rejected with the exception constructor of `k`
    (an ariadne-codegen class, carrying the offending value). -/
theorem violation_typed (env : Env) (s : ClientSettings) (k : ClientCheck) (pre post : List ClientCheck)
    (hord : ClientCheck.order = pre ++ k :: post)
    (hk : Violates env s k) (hpre : ∀ k' ∈ pre, ¬ Violates env s k') :
    ∃ e, clientPostInit env s = .error e ∧ Expected env s k e ∧ e.typed = true := by
  obtain ⟨e, he⟩ := (check_raises_iff env s k).mpr hk
  refine ⟨e, ?_, check_error_expected env s k e he, check_error_typed env s k e he⟩
  have hnone : ∀ k' ∈ pre, evalClientCheck env s k' = none := by
    intro k' hk'
    cases hc : evalClientCheck env s k' with
    | none => rfl
    | some e' => exact absurd ((check_raises_iff env s k').mp ⟨e', hc⟩) (hpre k' hk')
  unfold clientPostInit
  rw [hord, firstError_append_some (evalClientCheck env s) pre post k e he hnone]

/-- non-vacuity of `violation_typed`: a keyword as client name with everything else in order -/
def exEnv : Env := {
  pathExists := fun _ => true, isDir := fun _ => true, isFile := fun _ => true,
  readText := fun _ => "class AsyncBaseClient:", environ := fun _ => none, isIdent := fun _ => true,
  cwd := "/w", defaultPath := fun k => k }
def exSettings : ClientSettings :=
  { schemaPath := "s.graphql", queriesPath := "q.graphql", targetPackagePath := "/w", clientName := "class" }
example : clientPostInit exEnv exSettings = .error (.badIdentifier "class") := by decide

/-- conversely every rejection comes from a violated constraint all of whose predecessors hold -/
theorem rejection_is_a_violation (env : Env) (s : ClientSettings) (e : ConfigError)
    (h : clientPostInit env s = .error e) :
    ∃ pre k post, ClientCheck.order = pre ++ k :: post ∧ Violates env s k ∧ Expected env s k e ∧
      ∀ k' ∈ pre, ¬ Violates env s k' := by
  unfold clientPostInit at h
  cases hf : firstError (evalClientCheck env s) ClientCheck.order with
  | none => simp [hf] at h
  | some e' =>
    simp [hf] at h
    subst h
    obtain ⟨pre, k, post, hs, hk, hpre⟩ := firstError_some_split _ _ _ hf
    refine ⟨pre, k, post, hs, (check_raises_iff env s k).mp ⟨_, hk⟩, check_error_expected env s k _ hk, ?_⟩
    intro k' hk' hv
    obtain ⟨e2, he2⟩ := (check_raises_iff env s k').mpr hv
    rw [hpre k' hk'] at he2
    cases he2

/-! ## 2. Every configuration meeting the constraints is accepted -/

theorem mem_order (k : ClientCheck) : k ∈ ClientCheck.order := by cases k <;> decide

/-- **valid_accepted** (must): when no constraint is violated the settings are accepted -/
theorem valid_accepted (env : Env) (s : ClientSettings) (h : ∀ k, ¬ Violates env s k) :
    clientPostInit env s = .ok (finalizeClient env s) := by
  have : firstError (evalClientCheck env s) ClientCheck.order = none := by
    rw [firstError_none_iff]
    intro k _
    cases hc : evalClientCheck env s k with
    | none => rfl
    | some e => exact absurd ((check_raises_iff env s k).mp ⟨e, hc⟩) (h k)
  simp [clientPostInit, this]

theorem accepted_iff (env : Env) (s : ClientSettings) :
    (∃ s', clientPostInit env s = .ok s') ↔ ∀ k, ¬ Violates env s k := by
  constructor
  · rintro ⟨s', hs'⟩ k hv
    unfold clientPostInit at hs'
    cases hf : firstError (evalClientCheck env s) ClientCheck.order with
    | some e => simp [hf] at hs'
    | none =>
      obtain ⟨e, he⟩ := (check_raises_iff env s k).mpr hv
      rw [(firstError_none_iff _ _).mp hf k (mem_order k)] at he
      cases he
  · intro h; exact ⟨_, valid_accepted env s h⟩

example : clientPostInit exEnv { exSettings with clientName := "Client" } =
    .ok (finalizeClient exEnv { exSettings with clientName := "Client" }) := by decide

/-- The DOCUMENTED constraints of the client strategy (README option table + property text):
    what a user may rely on.  One of them is stronger than what the code tests: the base client
    class must be declared in the file (not merely occur as a substring; finding C17-F7).
    (`fragments_module_name` must be a usable module name: tested since /repo 0686a80, which
    repaired finding C17-F2.) -/
structure Documented (env : Env) (s : ClientSettings) : Prop where
  queries : s.queriesPath ≠ "" ∨ s.enableCustomOperations = true
  source : s.schemaPath ≠ "" ∨ s.remoteSchemaUrl ≠ ""
  schemaPath : s.schemaPath ≠ "" → env.pathExists s.schemaPath = true
  headers : ∀ kv ∈ s.remoteSchemaHeaders, HeaderResolvable env kv.2
  comments : Tables.commentsStrategies.contains s.includeComments = true
  queriesPath : env.pathExists s.queriesPath = true
  packageName : validName env s.targetPackageName = true
  packagePath : env.isDir s.targetPackagePath = true
  clientName : validName env s.clientName = true
  clientFileName : validName env s.clientFileName = true
  baseClientName : validName env (baseClientData env s).1 = true
  baseClientPath : env.pathExists (baseClientData env s).2 = true
  baseClientFile : env.isFile (baseClientData env s).2 = true
  baseClientClass : classDeclared env (baseClientData env s).2 (baseClientData env s).1 = true
  enumsModule : validName env s.enumsModuleName = true
  inputTypesModule : validName env s.inputTypesModuleName = true
  fragmentsModule : validName env s.fragmentsModuleName = true
  files : ∀ f ∈ s.filesToInclude, env.isFile f = true

theorem documented_no_violation (env : Env) (s : ClientSettings) (d : Documented env s) (k : ClientCheck) :
    ¬ Violates env s k := by
  cases k <;> simp only [Violates]
  case queriesRequired => rintro ⟨h1, h2⟩; rcases d.queries with h | h <;> simp_all
  case schemaSource => rintro ⟨h1, h2⟩; rcases d.source with h | h <;> simp_all
  case schemaPathExists => rintro ⟨h1, h2⟩; have := d.schemaPath h1; simp_all
  case headers => rintro ⟨kv, hkv, hn⟩; exact hn (d.headers kv hkv)
  case commentMode => have := d.comments; simp_all
  case queriesPathExists => simp [d.queriesPath]
  case packageName => simp [d.packageName]
  case packagePathDir => simp [d.packagePath]
  case clientName => simp [d.clientName]
  case clientFileName => simp [d.clientFileName]
  case baseClientName => simp [d.baseClientName]
  case baseClientPathExists => simp [d.baseClientPath]
  case baseClientIsFile => simp [d.baseClientFile]
  case baseClientClass => simp [classDeclared_imp_definedIn env _ _ d.baseClientClass]
  case enumsModule => simp [d.enumsModule]
  case inputTypesModule => simp [d.inputTypesModule]
  case fragmentsModule => simp [d.fragmentsModule]
  case filesToInclude => rintro ⟨f, hf, hn⟩; have := d.files f hf; simp_all

/-- every configuration meeting the documented constraints is accepted -/
theorem documented_accepted (env : Env) (s : ClientSettings) (d : Documented env s) :
    clientPostInit env s = .ok (finalizeClient env s) :=
  valid_accepted env s (documented_no_violation env s d)

def badEnv : Env := { exEnv with isIdent := fun n => n != "not-valid" }
def badSettings : ClientSettings := { exSettings with clientName := "Client", fragmentsModuleName := "not-valid" }

/-- regression for the repaired finding C17-F2, at the level of `__post_init__`: the old witness
    (`fragments_module_name = "not-valid"`, everything else in order) is rejected with the
    identifier exception naming the value -/
theorem F2_settings_now_rejected :
    clientPostInit badEnv badSettings = .error (.badIdentifier "not-valid") := by decide

/-- `__post_init__` as it was BEFORE /repo 0686a80 (the check of `fragments_module_name` absent).
    Kept only to document what a regression looks like; nothing else refers to it. -/
def orderBefore0686a80 : List ClientCheck := ClientCheck.order.filter (· != .fragmentsModule)
def clientPostInitBefore0686a80 (env : Env) (s : ClientSettings) : Except ConfigError ClientSettings :=
  match firstError (evalClientCheck env s) orderBefore0686a80 with
  | some e => .error e
  | none => .ok (finalizeClient env s)

/-- the old code accepted the witness although it violates a documented constraint (what C17-F2 was) -/
theorem before_0686a80_accepted_undocumented :
    (∃ s', clientPostInitBefore0686a80 badEnv badSettings = .ok s') ∧ ¬ Documented badEnv badSettings := by
  refine ⟨⟨finalizeClient badEnv badSettings, by decide⟩, fun d => ?_⟩
  have := d.fragmentsModule
  revert this
  decide

def prefEnv : Env := { exEnv with readText := fun _ => "class MyBaseClient:" }
def prefSettings : ClientSettings :=
  { exSettings with clientName := "Client", baseClientName := "MyBase", baseClientFilePath := "/w/custom_base.py" }

/-- ... but the converse still fails: the code accepts a configuration that violates a documented
    constraint (finding C17-F7; C17-F2 was the other such case until /repo 0686a80). -/
theorem accepted_not_documented :
    ¬ (∀ env s, (∃ s', clientPostInit env s = .ok s') → Documented env s) := by
  intro h
  have d := h prefEnv prefSettings ⟨finalizeClient prefEnv prefSettings, by decide⟩
  have := d.baseClientClass
  revert this
  decide

/-! ## 3. The graphqlschema strategy's settings -/

def ViolatesS (env : Env) (s : SchemaSettings) : SchemaCheck → Prop
  | .schemaSource => s.schemaPath = "" ∧ s.remoteSchemaUrl = ""
  | .schemaPathExists => s.schemaPath ≠ "" ∧ env.pathExists s.schemaPath = false
  | .headers => ∃ kv ∈ s.remoteSchemaHeaders, ¬ HeaderResolvable env kv.2
  | .targetFileType =>
      (pathSuffix s.targetFilePath).isEmpty = true ∨
      ¬ (asciiLower ((pathSuffix s.targetFilePath).drop 1) = "py" ∨ asciiLower ((pathSuffix s.targetFilePath).drop 1) = "graphql"
          ∨ asciiLower ((pathSuffix s.targetFilePath).drop 1) = "gql")
  | .schemaVariable => validName env s.schemaVariableName = false
  | .typeMapVariable => validName env s.typeMapVariableName = false

def ExpectedS (env : Env) (s : SchemaSettings) : SchemaCheck → ConfigError → Prop
  | .schemaSource, e => e = .noSchemaSource
  | .schemaPathExists, e => e = .pathMissing s.schemaPath
  | .headers, e => ∃ kv ∈ s.remoteSchemaHeaders, e = .envVarMissing (lstripDollar kv.2)
  | .targetFileType, e => e = .targetNoFileType s.targetFilePath ∨
      e = .targetBadFileType s.targetFilePath (asciiLower ((pathSuffix s.targetFilePath).drop 1))
  | .schemaVariable, e => e = .badIdentifier s.schemaVariableName
  | .typeMapVariable, e => e = .badIdentifier s.typeMapVariableName

theorem checkS_raises_iff (env : Env) (s : SchemaSettings) (k : SchemaCheck) :
    (∃ e, evalSchemaCheck env s k = some e) ↔ ViolatesS env s k := by
  cases k <;> simp only [evalSchemaCheck, ViolatesS]
  case schemaSource => cases hq : (s.schemaPath == "") <;> cases hr : (s.remoteSchemaUrl == "") <;> simp_all
  case schemaPathExists => cases hq : (s.schemaPath == "") <;> cases env.pathExists s.schemaPath <;> simp_all
  case headers =>
    constructor
    · rintro ⟨e, he⟩
      apply Classical.byContradiction
      intro hn
      have : ∀ kv ∈ s.remoteSchemaHeaders, HeaderResolvable env kv.2 := by
        intro kv hkv
        apply Classical.byContradiction
        intro hnr
        exact hn ⟨kv, hkv, hnr⟩
      rw [(firstBadHeader_none_iff env _).mpr this] at he
      cases he
    · rintro ⟨kv, hkv, hnr⟩
      cases hb : firstBadHeader env s.remoteSchemaHeaders with
      | some e => exact ⟨e, rfl⟩
      | none => exact absurd ((firstBadHeader_none_iff env _).mp hb kv hkv) hnr
  case targetFileType =>
    simp only [targetFileCheck]
    generalize (pathSuffix s.targetFilePath).isEmpty = b
    generalize asciiLower ((pathSuffix s.targetFilePath).drop 1) = t
    cases b
    · by_cases h1 : t = "py" <;> by_cases h2 : t = "graphql" <;> by_cases h3 : t = "gql" <;> simp [h1, h2, h3]
    · simp
  case schemaVariable => exact identCheck_some_iff env _
  case typeMapVariable => exact identCheck_some_iff env _

theorem checkS_error_expected (env : Env) (s : SchemaSettings) (k : SchemaCheck) (e : ConfigError)
    (h : evalSchemaCheck env s k = some e) : ExpectedS env s k e := by
  cases k <;> simp only [evalSchemaCheck, ExpectedS] at h ⊢
  case schemaSource => split at h <;> simp_all
  case schemaPathExists => split at h <;> simp_all
  case headers => exact firstBadHeader_some env _ e h
  case targetFileType =>
    simp only [targetFileCheck] at h
    split at h
    · left; simp_all
    · split at h
      · simp at h
      · right; simp_all
  case schemaVariable => exact identCheck_eq env _ e h
  case typeMapVariable => exact identCheck_eq env _ e h

theorem checkS_error_typed (env : Env) (s : SchemaSettings) (k : SchemaCheck) (e : ConfigError)
    (h : evalSchemaCheck env s k = some e) : e.typed = true := by
  have hx := checkS_error_expected env s k e h
  cases k <;> simp only [ExpectedS] at hx
  case headers => obtain ⟨kv, _, rfl⟩ := hx; rfl
  case targetFileType => rcases hx with rfl | rfl <;> rfl
  all_goals (subst hx; rfl)

/-- **violation_typed** for `GraphQLSchemaSettings` (bad target file suffix, invalid variable names ...) -/
theorem violation_typed_schema (env : Env) (s : SchemaSettings) (k : SchemaCheck) (pre post : List SchemaCheck)
    (hord : SchemaCheck.order = pre ++ k :: post)
    (hk : ViolatesS env s k) (hpre : ∀ k' ∈ pre, ¬ ViolatesS env s k') :
    ∃ e, schemaPostInit env s = .error e ∧ ExpectedS env s k e ∧ e.typed = true := by
  obtain ⟨e, he⟩ := (checkS_raises_iff env s k).mpr hk
  refine ⟨e, ?_, checkS_error_expected env s k e he, checkS_error_typed env s k e he⟩
  have hnone : ∀ k' ∈ pre, evalSchemaCheck env s k' = none := by
    intro k' hk'
    cases hc : evalSchemaCheck env s k' with
    | none => rfl
    | some e' => exact absurd ((checkS_raises_iff env s k').mp ⟨e', hc⟩) (hpre k' hk')
  unfold schemaPostInit
  rw [hord, firstError_append_some (evalSchemaCheck env s) pre post k e he hnone]

example : schemaPostInit exEnv { schemaPath := "s.graphql", targetFilePath := "out/schema.txt" } =
    .error (.targetBadFileType "out/schema.txt" "txt") := by decide
example : schemaPostInit exEnv { schemaPath := "s.graphql", targetFilePath := "schema" } =
    .error (.targetNoFileType "schema") := by decide

theorem valid_accepted_schema (env : Env) (s : SchemaSettings) (h : ∀ k, ¬ ViolatesS env s k) :
    schemaPostInit env s = .ok (finalizeSchema env s) := by
  have : firstError (evalSchemaCheck env s) SchemaCheck.order = none := by
    rw [firstError_none_iff]
    intro k _
    cases hc : evalSchemaCheck env s k with
    | none => rfl
    | some e => exact absurd ((checkS_raises_iff env s k).mp ⟨e, hc⟩) (h k)
  simp [schemaPostInit, this]

example : schemaPostInit exEnv { schemaPath := "s.graphql", targetFilePath := "d.x/S.GraphQL" } =
    .ok (finalizeSchema exEnv { schemaPath := "s.graphql", targetFilePath := "d.x/S.GraphQL" }) := by decide

/-! ## 4. config.py: section lookup, scalars, unknown keys, purity -/

/-- a configuration whose section is `[tool.ariadne-codegen]` -/
def mkCfg (sec : Dict) : J := .obj [("tool", .obj [("ariadne-codegen", .obj sec)])]

theorem getSection_mkCfg (sec : Dict) : getSection (mkCfg sec) = .ok (sec, false) := by
  simp [getSection, mkCfg, J.lookup]

/-- no `[tool.ariadne-codegen]` and no `[ariadne-codegen]` section: `MissingConfiguration`, both strategies -/
theorem no_section_rejected (env : Env) (top : Dict)
    (h1 : J.lookup "tool" top = none ∨ ∃ tool, J.lookup "tool" top = some (.obj tool) ∧ J.lookup "ariadne-codegen" tool = none)
    (h2 : J.lookup "ariadne-codegen" top = none) :
    (getClientSettings env (.obj top)).result = .error .missingSection ∧
    (getSchemaSettings env (.obj top)).result = .error .missingSection := by
  have hs : getSection (.obj top) = .error .missingSection := by
    rcases h1 with h | ⟨tool, ht, hn⟩
    · simp [getSection, h, h2]
    · simp [getSection, ht, hn, h2]
  simp [getClientSettings, readRawClient, getSchemaSettings, readRawSchema, hs, bind, Except.bind]

example : (getClientSettings exEnv (.obj [("tool", .obj [("black", .obj [])])])).result = .error .missingSection := by decide

/-- the deprecated top-level section is still read (with a warning), `[tool.ariadne-codegen]` wins -/
theorem deprecated_section_read (env : Env) (top sec : Dict) (h1 : J.lookup "tool" top = none)
    (h2 : J.lookup "ariadne-codegen" top = some (.obj sec)) :
    getSection (.obj top) = .ok (sec, true) := by
  simp [getSection, h1, h2]

/-- **scalar without type**: the first scalar table lacking `type` (all earlier ones well-formed)
    makes `get_client_settings` raise `MissingConfiguration("Missing 'type' field ...")` -/
theorem scalar_without_type_rejected (env : Env) (sec : Dict) (pre post : List (String × J)) (n : String)
    (d : List (String × J)) (pres : List ScalarData)
    (hs : J.lookup "scalars" sec = some (.obj (pre ++ (n, .obj d) :: post)))
    (hpre : parseScalars pre = .ok pres) (hd : J.lookup "type" d = none) :
    (getClientSettings env (mkCfg sec)).result = .error .scalarMissingType := by
  simp [getClientSettings, readRawClient, getSection_mkCfg, Heap.copy, hs, bind, Except.bind,
    parseScalars_missing_type pre post n d pres hpre hd]

example : (getClientSettings exEnv (mkCfg [("schema_path", .str "s"), ("queries_path", .str "q"),
    ("scalars", .obj [("A", .obj [("type", .str "str")]), ("B", .obj [("parse", .str "p")])])])).result
    = .error .scalarMissingType := by decide

/-- **settings_pure** (must): reading settings never mutates the configuration it is given —
    `get_client_settings` copies the section before its two item assignments, and
    `get_graphql_schema_settings` assigns nothing. -/
theorem settings_pure (env : Env) (cfg : J) :
    (getClientSettings env cfg).callerAfter = cfg ∧ (getSchemaSettings env cfg).callerAfter = cfg := by
  constructor
  · simp only [getClientSettings, readRawClient]
    cases hs : getSection cfg with
    | error e => rfl
    | ok p =>
      obtain ⟨sec, depr⟩ := p
      simp only [Heap.copy]
      split
      · rfl
      · split <;> simp [Heap.setItem]
  · simp only [getSchemaSettings, readRawSchema]
    cases hs : getSection cfg with
    | error e => rfl
    | ok p => rfl

/-- the copy is what makes it so: an item assignment through an ALIASED section reaches the caller -/
example : ((({ caller := mkCfg [("a", .null)], viaTool := true, section_ := [("a", .null)], aliased := true } : Heap).setItem
    "scalars" (.obj [])).caller == mkCfg [("a", .null), ("scalars", .obj [])]) = true := by decide

def knownClientKey (k : String) : Bool := clientFieldNames.contains k
def onlyKnown (sec : Dict) : Dict := sec.filter (fun kv => knownClientKey kv.1)

theorem onlyKnown_idem (sec : Dict) : onlyKnown (onlyKnown sec) = onlyKnown sec := by
  simp [onlyKnown, List.filter_filter]

theorem raw_result_onlyKnown (env : Env) (sec : Dict) :
    (readRawClient env (mkCfg sec)).result = (readRawClient env (mkCfg (onlyKnown sec))).result := by
  have hsc : J.lookup "scalars" (onlyKnown sec) = J.lookup "scalars" sec :=
    lookup_filter_key knownClientKey "scalars" (by decide) sec
  have hic : J.lookup "include_comments" (onlyKnown sec) = J.lookup "include_comments" sec :=
    lookup_filter_key knownClientKey "include_comments" (by decide) sec
  simp only [readRawClient, getSection_mkCfg, Heap.copy, hsc]
  generalize (match J.lookup "scalars" sec with
    | none => (Except.ok [] : Except ConfigError (List (String × J)))
    | some (J.obj kvs) => Except.ok kvs
    | some _ => Except.error (ConfigError.illTyped "scalars")) >>= parseScalars = parsed
  cases parsed with
  | error e => rfl
  | ok scalars =>
    simp only [Heap.setItem]
    rw [lookup_dictSet_ne "include_comments" "scalars" _ sec (by decide),
        lookup_dictSet_ne "include_comments" "scalars" _ (onlyKnown sec) (by decide), hic]
    have hf1 : ∀ v l, onlyKnown (dictSet "scalars" v l) = dictSet "scalars" v (onlyKnown l) :=
      fun v l => filter_dictSet knownClientKey "scalars" v (by decide) l
    have hf2 : ∀ v l, onlyKnown (dictSet "include_comments" v l) = dictSet "include_comments" v (onlyKnown l) :=
      fun v l => filter_dictSet knownClientKey "include_comments" v (by decide) l
    cases hl : J.lookup "include_comments" sec with
    | none =>
      simp only [buildClient]
      show assignClientFields env (onlyKnown _) scalars = assignClientFields env (onlyKnown _) scalars
      simp only [hf1, hf2, onlyKnown_idem]
    | some v =>
      cases v with
      | bool b =>
        simp only [buildClient]
        show assignClientFields env (onlyKnown _) scalars = assignClientFields env (onlyKnown _) scalars
        simp only [hf1, hf2, onlyKnown_idem]
      | _ =>
        simp only [buildClient]
        show assignClientFields env (onlyKnown _) scalars = assignClientFields env (onlyKnown _) scalars
        simp only [hf1, hf2, onlyKnown_idem]

/-- **unknown_keys_ignored** (must): two sections that agree on the keys `ClientSettings` knows
    (same values, same order) are read to the same result, whatever else they contain -/
theorem unknown_keys_ignored (env : Env) (sec sec' : Dict) (h : onlyKnown sec = onlyKnown sec') :
    (getClientSettings env (mkCfg sec)).result = (getClientSettings env (mkCfg sec')).result := by
  simp only [getClientSettings]
  rw [raw_result_onlyKnown env sec, raw_result_onlyKnown env sec', h]

example : onlyKnown [("zzz", .num 1 0), ("schema_path", .str "s"), ("Schema_Path", .str "x"), ("queries_path", .str "q")]
    = onlyKnown [("schema_path", .str "s"), ("queries_path", .str "q"), ("nested", .obj [])] := by
  simp [onlyKnown, knownClientKey, clientFieldNames, Tables.clientSettingsFields, List.filter]

def knownSchemaKey (k : String) : Bool := schemaFieldNames.contains k

theorem unknown_keys_ignored_schema (env : Env) (sec sec' : Dict)
    (h : sec.filter (fun kv => knownSchemaKey kv.1) = sec'.filter (fun kv => knownSchemaKey kv.1)) :
    (getSchemaSettings env (mkCfg sec)).result = (getSchemaSettings env (mkCfg sec')).result := by
  have h' : sec.filter (fun kv => schemaFieldNames.contains kv.1) = sec'.filter (fun kv => schemaFieldNames.contains kv.1) := h
  simp only [getSchemaSettings, readRawSchema, getSection_mkCfg, buildSchema, h']

/-- the option names the two filters are built from are the dataclass fields of the pinned tree
    (regenerated table: a new or renamed option breaks this and with it the build) -/
theorem client_field_names :
    clientFieldNames = ["schema_path", "remote_schema_url", "remote_schema_headers", "remote_schema_verify_ssl",
      "enable_custom_operations", "plugins", "queries_path", "target_package_name", "target_package_path",
      "client_name", "client_file_name", "base_client_name", "base_client_file_path", "enums_module_name",
      "input_types_module_name", "fragments_module_name", "include_comments", "convert_to_snake_case",
      "include_all_inputs", "include_all_enums", "async_client", "opentelemetry_client", "files_to_include",
      "scalars"] := by decide +kernel

/-- the defaults the model assigns are the dataclass defaults of the pinned tree -/
theorem client_defaults_table :
    Tables.clientSettingsFields.filter (fun p => p.2 != "<factory>") =
      [("schema_path", "''"), ("remote_schema_url", "''"), ("remote_schema_verify_ssl", "True"),
       ("enable_custom_operations", "False"), ("queries_path", "''"), ("target_package_name", "'graphql_client'"),
       ("client_name", "'Client'"), ("client_file_name", "'client'"), ("base_client_name", "''"),
       ("base_client_file_path", "''"), ("enums_module_name", "'enums'"), ("input_types_module_name", "'input_types'"),
       ("fragments_module_name", "'fragments'"), ("include_comments", "'stable'"), ("convert_to_snake_case", "True"),
       ("include_all_inputs", "True"), ("include_all_enums", "True"), ("async_client", "True"),
       ("opentelemetry_client", "False")] ∧
    Tables.schemaSettingsFields.filter (fun p => p.2 != "<factory>") =
      [("schema_path", "''"), ("remote_schema_url", "''"), ("remote_schema_verify_ssl", "True"),
       ("enable_custom_operations", "False"), ("target_file_path", "'schema.py'"), ("schema_variable_name", "'schema'"),
       ("type_map_variable_name", "'type_map'")] := by decide +kernel

/-- the four bundled base clients the defaults refer to exist in the regenerated table -/
theorem default_clients_table :
    ∀ a o, (defaultClassName (clientKind a o)).isSome = true := by decide +kernel

/-- no keyword is accepted as a name, whatever `str.isidentifier` says (C17-F1 stays fixed) -/
theorem keyword_never_valid (env : Env) (n : String) (h : n ∈ Tables.kwlist) : validName env n = false := by
  have : isKeyword n = true := by simpa [isKeyword] using h
  simp [validName, this]

/-! ## 5. The phase order: nothing is written before `PackageGenerator.generate` reaches `mkdir` -/

theorem no_write_before_generate (r : ClientRun) (ph : Phase) (e : PyErr)
    (h : (client r).result = .error (ph, e)) (hph : ph ≠ .generateWrite) : (client r).log = [] := by
  unfold client at h ⊢
  cases hp : prepare r with
  | error x => rfl
  | ok p =>
    simp only [hp] at h ⊢
    rcases generate_spec r p with ⟨hl, _⟩ | ⟨e', he'⟩ | ⟨fs, hfs⟩
    · exact hl
    · rw [he'] at h
      simp at h
      exact absurd h.1.symm hph
    · rw [hfs] at h
      cases h

/-- the phases `prepare` can fail in are exactly the six before `generate` -/
theorem prepare_phase (r : ClientRun) (ph : Phase) (e : PyErr) (h : prepare r = .error (ph, e)) :
    ph = .settings ∨ ph = .loadSchema ∨ ph = .plugins ∨ ph = .assertValid ∨ ph = .loadQueries ∨ ph = .addOperation := by
  rcases prepare_error_cases r ph e h with ⟨_, _, h, _⟩ | ⟨_, _, ⟨_, h⟩ | ⟨_, _, ⟨_, h⟩ | ⟨_, ⟨_, h⟩ | ⟨_, ⟨_, _, h⟩ | ⟨h, _⟩⟩⟩⟩⟩ <;> simp [h]

/-- the graphqlschema strategy: every failure leaves the target file untouched -/
theorem schema_no_write_on_failure (r : SchemaRun) (x : Phase × PyErr)
    (h : (graphqlSchema r).result = .error x) : (graphqlSchema r).log = [] := by
  unfold graphqlSchema at h ⊢
  cases h1 : (getSchemaSettings r.env r.cfg).result with
  | error e => rfl
  | ok s =>
    simp only [h1] at h ⊢
    cases h2 : loadSchema (s.schemaPath != "") r.schema with
    | error e => rfl
    | ok sch =>
      simp only [h2] at h ⊢
      cases h3 : resolvePlugins r.plugins with
      | error e => rfl
      | ok u =>
        simp only [h3] at h ⊢
        cases h4 : assertValid (processSchema r.plugins sch) with
        | error e => rfl
        | ok u2 =>
          simp only [h4] at h ⊢
          cases h5 : r.writeError with
          | some e => rfl
          | none => simp [h5] at h

/-! ## 6. `assume_valid` makes the validity assertion vacuous (proved negative, finding C17-F3) -/

/-- **assert_valid_is_vacuous**: a schema that came out of `get_graphql_schema_from_path/_from_url`
    (built with `assume_valid=True`) passes `assert_valid_schema` however many errors validation would
    find, unless a plugin swapped the schema object. -/
theorem assert_valid_is_vacuous (fromPath : Bool) (o : SchemaOracle) (p : PluginsOracle) (sch : SchemaState)
    (h : loadSchema fromPath o = .ok sch) (hp : p.replaces = none) :
    assertValid (processSchema p sch) = .ok () := by
  have hc := (loadSchema_ok fromPath o sch h).1
  simp [processSchema, hp, assertValid, validationErrorsSeen, hc]

/-- consequently `main.client` never fails in the validity assertion -/
theorem client_never_fails_at_assertValid (r : ClientRun) (hp : r.plugins.replaces = none) (e : PyErr) :
    prepare r ≠ .error (.assertValid, e) := by
  intro h
  rcases prepare_error_cases r _ e h with ⟨_, _, h, _⟩ | ⟨_, _, ⟨_, h⟩ | ⟨sch, hl, ⟨_, h⟩ | ⟨_, ⟨ha, _⟩ | ⟨_, ⟨_, _, h⟩ | ⟨h, _⟩⟩⟩⟩⟩
  all_goals first
    | (cases h; done)
    | (rw [assert_valid_is_vacuous _ _ _ _ hl hp] at ha; cases ha)

/-- only a schema object that was NOT built with assume_valid can make the assertion fire — and then
    what escapes is graphql-core's bare `TypeError`, not an ariadne-codegen exception -/
theorem assertValid_error_untyped (s : SchemaState) (e : PyErr) (h : assertValid s = .error e) : e.typed = false := by
  simp only [assertValid] at h
  generalize validationErrorsSeen s = n at h
  by_cases hn : (n == 0) = true
  · simp [hn] at h
  · simp only [hn] at h
    injection h with h
    subst h
    rfl

/-! ## 7. C17 at full strength, its refutation, and the part that holds -/

/-- the configuration violates a documented constraint: no section, a scalar without type, or a
    dataclass that does not meet `Documented` -/
def ConfigInvalid (env : Env) (cfg : J) : Prop :=
  match (readRawClient env cfg).result with
  | .error e => e.typed = true
  | .ok s => ¬ Documented env s

/-- a graphql source with a file that does not parse, or with no graphql file at all -/
def BadSource (s : Source) : Prop := s.files = [] ∨ ∃ f ∈ s.files, f.2 = false

def SyntaxInvalid (r : ClientRun) : Prop :=
  ∃ s, (getClientSettings r.env r.cfg).result = .ok s ∧
    ((s.schemaPath ≠ "" ∧ BadSource r.schema.src) ∨ (s.queriesPath ≠ "" ∧ BadSource r.queries.src))

/-- graphql-core cannot build the schema, or validation (SDL + type-system rules) finds errors -/
def SchemaInvalid (r : ClientRun) : Prop := r.schema.buildError.isSome = true ∨ r.schema.trueErrors ≠ 0

def OperationInvalid (r : ClientRun) : Prop :=
  ∃ s, (getClientSettings r.env r.cfg).result = .ok s ∧ s.queriesPath ≠ "" ∧ r.queries.validationErrors ≠ []

/-- the four classes of invalid input the property names -/
def Invalid (r : ClientRun) : Prop :=
  ConfigInvalid r.env r.cfg ∨ SyntaxInvalid r ∨ SchemaInvalid r ∨ OperationInvalid r

/-- the modelled domain (`Valid` of the conventions): well-typed option values, an introspection
    transport that answers (C19's subject), plugins that do not swap the schema object -/
structure InDomain (r : ClientRun) : Prop where
  wellTyped : ∀ e, (getClientSettings r.env r.cfg).result = .error e → e.typed = true
  remote : ∀ c, r.schema.remote ≠ .raw c
  plugins : r.plugins.replaces = none

/-- fails with one of ariadne-codegen's exception classes, before anything was written -/
def RejectedUpFront (o : Outcome) : Prop := ∃ ph e, o.result = .error (ph, e) ∧ e.typed = true ∧ o.log = []

/-- **C17 at full strength** (the property as stated) -/
def C17_full : Prop := ∀ r : ClientRun, InDomain r → Invalid r → RejectedUpFront (client r)

/-- complement of the finding triggers -/
def Supported (r : ClientRun) : Prop :=
  ¬ (trigInvalidSchemaAssumed r.schema r.plugins = true ∨
     trigSchemaBuildTypeError r.schema = true ∨ trigFragmentGenError r.queries = true ∨
     trigNoGraphqlFiles r = true ∨ trigClassSubstring r.env r.cfg = true)

/-! ### witnesses (each is replayed on the real code by harness/c17.py, corpus/C17) -/

def wCfg (extra : Dict) : J :=
  mkCfg ([("schema_path", .str "schema.graphql"), ("queries_path", .str "queries.graphql"),
          ("target_package_path", .str "/w/out")] ++ extra)

def wOp : OpInfo := { name := some "GetA", moduleName := "get_a" }

/-- a valid run, to be damaged in one place per witness -/
def wBase : ClientRun := {
  env := exEnv, cfg := wCfg [],
  schema := { src := { files := [("/w/schema.graphql", true)] } },
  queries := { src := { files := [("/w/queries.graphql", true)] }, ops := [wOp] },
  pkgDirExists := false }

/-- F3: interface not implemented (one validation error) — accepted, the whole package is written -/
def wInvalidSchema : ClientRun := { wBase with schema := { wBase.schema with trueErrors := 1 } }
/-- F4: unknown type — graphql-core's TypeError escapes -/
def wUnknownType : ClientRun := { wBase with schema := { wBase.schema with buildError := some "Unknown type: 'Missing'.", trueErrors := 1 } }
/-- F2 (fixed by /repo 0686a80): `fragments_module_name = "not-valid"` — was accepted by the
    settings, is rejected now (`C17_F2_witness_now_ok` below) -/
def wFragmentsModule : ClientRun :=
  { wBase with env := badEnv, cfg := wCfg [("fragments_module_name", .str "not-valid")] }
/-- F6: a schema directory without graphql files -/
def wNoFiles : ClientRun := { wBase with schema := { src := { files := [] } } }
/-- F5: malformed @mixin on a fragment that ends up in the fragments module -/
def wMixinFragment : ClientRun :=
  { wBase with queries := { wBase.queries with
      frags := [{ name := "UF", genError := some (.codegen "ParsingError" "Required arguments (from, import) not found.") }] } }

theorem inDomain_of_accepted (r : ClientRun) (h : isOk (getClientSettings r.env r.cfg).result = true)
    (hr : r.schema.remote = .ok) (hp : r.plugins.replaces = none) : InDomain r :=
  ⟨fun e he => (by rw [he] at h; cases h), fun c hc => (by rw [hr] at hc; cases hc), hp⟩

theorem wBase_accepted : isOk (client wBase).result = true ∧ (client wBase).log ≠ [] := ⟨by decide, by decide⟩
theorem wBase_inDomain : InDomain wBase := inDomain_of_accepted _ (by decide) rfl rfl

theorem invalid_schema_accepted :
    Invalid wInvalidSchema ∧ InDomain wInvalidSchema ∧ isOk (client wInvalidSchema).result = true :=
  ⟨Or.inr (Or.inr (Or.inl (Or.inr (by decide)))), inDomain_of_accepted _ (by decide) rfl rfl, by decide⟩

theorem unknown_type_untyped :
    Invalid wUnknownType ∧ (client wUnknownType).result = .error (.loadSchema, .raw "TypeError") :=
  ⟨Or.inr (Or.inr (Or.inl (Or.inl (by decide)))), by decide⟩

theorem no_files_untyped :
    Invalid wNoFiles ∧ (client wNoFiles).result = .error (.loadSchema, .raw "GraphQLSyntaxError") := by
  refine ⟨Or.inr (Or.inl ?_), by decide⟩
  obtain ⟨s, hs⟩ := (isOk_iff _).mp (show isOk (getClientSettings wNoFiles.env wNoFiles.cfg).result = true by decide)
  refine ⟨s, hs, Or.inl ⟨?_, Or.inl rfl⟩⟩
  intro h
  have : (getClientSettings wNoFiles.env wNoFiles.cfg).result.toOption.map (·.schemaPath) = some "schema.graphql" := by decide
  rw [hs] at this
  simp [Except.toOption, h] at this

/-- **C17_full_false**: the property as stated does not hold of the code (model): an invalid schema
    is accepted and a package is written (finding C17-F3). -/
theorem C17_full_false : ¬ C17_full := by
  intro h
  obtain ⟨hinv, hdom, hok⟩ := invalid_schema_accepted
  obtain ⟨ph, e, herr, _⟩ := h wInvalidSchema hdom hinv
  rw [herr] at hok
  cases hok

/-! ### "no side effects" for every failure, not only for the four classes -/

/-- a failing run leaves the target untouched -/
def FailsClean (o : Outcome) : Prop := ∀ x, o.result = .error x → o.log = []

def NoSideEffects_full : Prop := ∀ r : ClientRun, FailsClean (client r)

/-- finding C17-F5: a ParsingError raised by the fragments step comes after `mkdir` and two writes -/
theorem NoSideEffects_full_false : ¬ NoSideEffects_full := by
  intro h
  have := h wMixinFragment (.generateWrite, .codegen "ParsingError" "Required arguments (from, import) not found.") (by decide)
  revert this
  decide

theorem generate_no_late_error (r : ClientRun) (p : Prepared) (ht : trigFragmentGenError r.queries = false)
    (hc : ∀ st, r.codeError st = none) (e : PyErr) : (generate r p).result ≠ .error (.generateWrite, e) := by
  by_cases hd : (!(duplicates (allFileNames r.env p.settings p.resultFiles)).isEmpty) = true
  · simp [generate, hd]
  · simp only [generate, hd]
    have hfr : fragmentsStep (if (p.settings.queriesPath != "") = true then r.queries.frags else []) = none ∨
        fragmentsStep (if (p.settings.queriesPath != "") = true then r.queries.frags else []) = some none := by
      split
      · exact fragmentsStep_of_no_trigger _ ht
      · exact Or.inl rfl
    have hclean := runSteps_clean r.codeError hc _ (plannedSteps_clean r.env p.settings p.schema p.resultFiles _ hfr)
      (if r.pkgDirExists = true then [] else [Effect.mkdir])
    generalize runSteps r.codeError _ _ = rs at hclean ⊢
    obtain ⟨oe, log⟩ := rs
    simp at hclean
    subst hclean
    simp

/-- **NoSideEffects_partial**: outside finding C17-F5 (and with black accepting every emitted
    module) EVERY failure of `main.client` — not only those of the four classes — leaves the target
    untouched. -/
theorem NoSideEffects_partial (r : ClientRun) (ht : trigFragmentGenError r.queries = false)
    (hc : ∀ st, r.codeError st = none) : FailsClean (client r) := by
  intro x hx
  unfold client at hx ⊢
  cases hp : prepare r with
  | error y => rfl
  | ok p =>
    simp only [hp] at hx ⊢
    rcases generate_spec r p with ⟨hl, _⟩ | ⟨e', he'⟩ | ⟨fs, hfs⟩
    · exact hl
    · exact absurd he' (generate_no_late_error r p ht hc e')
    · rw [hfs] at hx; cases hx

example : trigFragmentGenError wBase.queries = false ∧ ∀ st, wBase.codeError st = none := ⟨by decide, fun _ => rfl⟩

/-! ### the part of C17 that holds -/

theorem documented_of_no_violation (env : Env) (s : ClientSettings) (h : ∀ k, ¬ Violates env s k)
    (hc : classDeclared env (baseClientData env s).2 (baseClientData env s).1 = true) : Documented env s where
  queries := by
    have := h .queriesRequired; simp only [Violates] at this
    by_cases hq : s.queriesPath = ""
    · right; cases he : s.enableCustomOperations with
      | true => rfl
      | false => exact absurd ⟨hq, he⟩ this
    · exact Or.inl hq
  source := by
    have := h .schemaSource; simp only [Violates] at this
    by_cases hq : s.schemaPath = ""
    · right; intro hu; exact this ⟨hq, hu⟩
    · exact Or.inl hq
  schemaPath := by
    intro hne
    have := h .schemaPathExists; simp only [Violates] at this
    cases he : env.pathExists s.schemaPath with
    | true => rfl
    | false => exact absurd ⟨hne, he⟩ this
  headers := by
    intro kv hkv
    have := h .headers; simp only [Violates] at this
    apply Classical.byContradiction
    intro hn
    exact this ⟨kv, hkv, hn⟩
  comments := by have := h .commentMode; simp only [Violates] at this; simpa using this
  queriesPath := by have := h .queriesPathExists; simp only [Violates] at this; simpa using this
  packageName := by have := h .packageName; simp only [Violates] at this; simpa using this
  packagePath := by have := h .packagePathDir; simp only [Violates] at this; simpa using this
  clientName := by have := h .clientName; simp only [Violates] at this; simpa using this
  clientFileName := by have := h .clientFileName; simp only [Violates] at this; simpa using this
  baseClientName := by have := h .baseClientName; simp only [Violates] at this; simpa using this
  baseClientPath := by have := h .baseClientPathExists; simp only [Violates] at this; simpa using this
  baseClientFile := by have := h .baseClientIsFile; simp only [Violates] at this; simpa using this
  baseClientClass := hc
  enumsModule := by have := h .enumsModule; simp only [Violates] at this; simpa using this
  inputTypesModule := by have := h .inputTypesModule; simp only [Violates] at this; simpa using this
  fragmentsModule := by have := h .fragmentsModule; simp only [Violates] at this; simpa using this
  files := by
    intro f hfm
    have := h .filesToInclude; simp only [Violates] at this
    cases he : env.isFile f with
    | true => rfl
    | false => exact absurd ⟨f, hfm, he⟩ this

/-- **accepted_iff_documented**: with C17-F2 repaired, acceptance by `__post_init__` and the
    documented constraints differ ONLY by finding C17-F7 — where the base client class is really
    declared in the file, the settings are accepted exactly when every documented constraint holds -/
theorem accepted_iff_documented (env : Env) (s : ClientSettings)
    (hc : classDefinedIn env (baseClientData env s).2 (baseClientData env s).1 = true →
          classDeclared env (baseClientData env s).2 (baseClientData env s).1 = true) :
    (∃ s', clientPostInit env s = .ok s') ↔ Documented env s := by
  constructor
  · intro h
    have hnv := (accepted_iff env s).mp h
    refine documented_of_no_violation env s hnv (hc ?_)
    have := hnv .baseClientClass
    simp only [Violates] at this
    simpa using this
  · intro d; exact ⟨_, documented_accepted env s d⟩

example : Documented exEnv { exSettings with clientName := "Client" } :=
  (accepted_iff_documented exEnv _ (by decide)).mp
    ⟨finalizeClient exEnv { exSettings with clientName := "Client" }, by decide⟩

theorem finalize_keeps (env : Env) (s0 : ClientSettings) :
    (finalizeClient env s0).fragmentsModuleName = s0.fragmentsModuleName ∧
    (finalizeClient env s0).baseClientName = (baseClientData env s0).1 ∧
    (finalizeClient env s0).baseClientFilePath = (baseClientData env s0).2 ∧
    (finalizeClient env s0).schemaPath = s0.schemaPath ∧ (finalizeClient env s0).queriesPath = s0.queriesPath :=
  ⟨rfl, rfl, rfl, rfl, rfl⟩

/-- outside the finding triggers, an input on which every phase up to the validation of the
    operations succeeds is not invalid -/
theorem passes_contradict (r : ClientRun) (hd : InDomain r) (hs : Supported r) (hi : Invalid r)
    (s : ClientSettings) (sch : SchemaState)
    (h1 : (getClientSettings r.env r.cfg).result = .ok s)
    (h2 : loadSchema (s.schemaPath != "") r.schema = .ok sch)
    (h5 : (s.queriesPath != "") = true → loadQueries r.queries = .ok ()) : False := by
  simp only [Supported, not_or] at hs
  obtain ⟨hF3, hF4, _, hF6, hF7⟩ := hs
  rcases hi with hc | hsyn | hsch | hop
  · -- configuration
    unfold ConfigInvalid at hc
    have h1' := h1
    simp only [getClientSettings, bind, Except.bind] at h1'
    cases hraw : (readRawClient r.env r.cfg).result with
    | error e => simp [hraw] at h1'
    | ok s0 =>
      simp only [hraw] at h1' hc
      have hnv := (accepted_iff r.env s0).mp ⟨s, h1'⟩
      have hs' : s = finalizeClient r.env s0 := by
        have := valid_accepted r.env s0 hnv
        rw [this] at h1'
        injection h1' with h
        exact h.symm
      obtain ⟨k1, k2, k3, _, _⟩ := finalize_keeps r.env s0
      apply hc
      apply documented_of_no_violation r.env s0 hnv
      · simp only [trigClassSubstring, h1] at hF7
        rw [hs', k2, k3] at hF7
        cases hv : classDeclared r.env (baseClientData r.env s0).2 (baseClientData r.env s0).1 with
        | true => rfl
        | false => simp [hv] at hF7
  · -- syntax
    obtain ⟨s', hs', hbad⟩ := hsyn
    rw [h1] at hs'
    injection hs' with hs'
    subst hs'
    rcases hbad with ⟨hp, hb⟩ | ⟨hq, hb⟩
    · have hfp : (s.schemaPath != "") = true := by simpa using hp
      rw [hfp] at h2
      have hsrc := (loadSource_ok_iff _).mp (loadSchema_true_source _ _ h2)
      rcases hb with hb | ⟨f, hf, hff⟩
      · exact hsrc.1 hb
      · have := hsrc.2 f hf; simp [hff] at this
    · have hq' : (s.queriesPath != "") = true := by simpa using hq
      have hsrc := (loadSource_ok_iff _).mp (loadQueries_ok _ (h5 hq')).1
      rcases hb with hb | ⟨f, hf, hff⟩
      · exact hsrc.1 hb
      · have := hsrc.2 f hf; simp [hff] at this
  · -- schema
    have hb := (loadSchema_ok _ _ _ h2).2.2.2
    rcases hsch with hsome | hne
    · simp [hb] at hsome
    · apply hF3
      simp [trigInvalidSchemaAssumed, hb, hd.plugins, codeAssumeValid, hne]
  · -- operations
    obtain ⟨s', hs', hq, hv⟩ := hop
    rw [h1] at hs'
    injection hs' with hs'
    subst hs'
    have hq' : (s.queriesPath != "") = true := by simpa using hq
    exact hv (loadQueries_ok _ (h5 hq')).2

/-- **C17_partial**: outside the five finding triggers (six before /repo 0686a80 repaired C17-F2:
    the region of this theorem grew by the old `fragmentsModuleNameUnchecked` region), every input of the four invalid classes
    (configuration violating a documented constraint, a graphql file that does not parse, an invalid
    schema, an operation invalid for the schema) makes `main.client` fail with one of
    ariadne-codegen's own exception classes and an EMPTY effect log.  (For invalid schemas the
    statement is vacuous: every invalid schema lies inside the triggers of C17-F3/F4 — that is the finding.) -/
theorem C17_partial (r : ClientRun) (hd : InDomain r) (hs : Supported r) (hi : Invalid r) :
    RejectedUpFront (client r) := by
  have hs' := hs
  simp only [Supported, not_or] at hs'
  obtain ⟨_, hF4, _, hF6, _⟩ := hs'
  have hbuild : r.schema.buildError = none := by
    simp only [trigSchemaBuildTypeError] at hF4
    cases hb : r.schema.buildError with
    | none => rfl
    | some m => simp [hb] at hF4
  unfold client
  cases hp : prepare r with
  | ok p =>
    obtain ⟨s, sch, h1, h2, _, _, h5, _⟩ := prepare_ok_cases r p hp
    exact (passes_contradict r hd hs hi s sch h1 h2 h5).elim
  | error x =>
    obtain ⟨ph, e⟩ := x
    refine ⟨ph, e, rfl, ?_, rfl⟩
    rcases prepare_error_cases r ph e hp with ⟨ce, hce, _, he⟩ | ⟨s, h1, ⟨hl, _⟩ | ⟨sch, h2, ⟨hpl, _⟩ | ⟨_, ⟨ha, _⟩ | ⟨_, ⟨hq, hlq, _⟩ | ⟨_, h5⟩⟩⟩⟩⟩
    · subst he; exact hd.wellTyped ce hce
    · have hfiles : (s.schemaPath != "") = true → r.schema.src.files ≠ [] := by
        intro hsp hnil
        apply hF6
        simp [trigNoGraphqlFiles, h1, hsp, hnil]
      exact loadSchema_error_typed _ _ e hl hfiles hd.remote hbuild
    · exact resolvePlugins_error_typed _ e hpl
    · rw [assert_valid_is_vacuous _ _ _ _ h2 hd.plugins] at ha; cases ha
    · have hfiles : r.queries.src.files ≠ [] := by
        intro hnil
        apply hF6
        simp [trigNoGraphqlFiles, h1, hq, hnil]
      exact loadQueries_error_typed _ e hlq hfiles
    · exact (passes_contradict r hd hs hi s sch h1 h2 h5).elim

/-- non-vacuity of `C17_partial`: an invalid operation on an otherwise valid, supported run -/
def wInvalidOperation : ClientRun :=
  { wBase with queries := { wBase.queries with validationErrors := ["Cannot query field 'zzz' on type 'Query'."] } }

theorem wInvalidOperation_hyps : InDomain wInvalidOperation ∧ Supported wInvalidOperation ∧ Invalid wInvalidOperation := by
  refine ⟨inDomain_of_accepted _ (by decide) rfl rfl, by simp only [Supported]; decide, Or.inr (Or.inr (Or.inr ?_))⟩
  obtain ⟨s, hs⟩ := (isOk_iff _).mp (show isOk (getClientSettings wInvalidOperation.env wInvalidOperation.cfg).result = true by decide)
  refine ⟨s, hs, ?_, by decide⟩
  intro h
  have : (getClientSettings wInvalidOperation.env wInvalidOperation.cfg).result.toOption.map (·.queriesPath) = some "queries.graphql" := by decide
  rw [hs] at this
  simp [Except.toOption, h] at this

example : (client wInvalidOperation).result =
    .error (.loadQueries, .codegen "InvalidOperationForSchema" "Cannot query field 'zzz' on type 'Query'.") ∧
    (client wInvalidOperation).log = [] := ⟨by decide, by decide⟩

/-- the union of the theorem region and the finding regions is everything (by definition) -/
theorem supported_or_triggered (r : ClientRun) :
    Supported r ∨ trigInvalidSchemaAssumed r.schema r.plugins = true ∨
      trigSchemaBuildTypeError r.schema = true ∨ trigFragmentGenError r.queries = true ∨
      trigNoGraphqlFiles r = true ∨ trigClassSubstring r.env r.cfg = true := by
  unfold Supported
  by_cases h : (trigInvalidSchemaAssumed r.schema r.plugins = true ∨
     trigSchemaBuildTypeError r.schema = true ∨ trigFragmentGenError r.queries = true ∨
     trigNoGraphqlFiles r = true ∨ trigClassSubstring r.env r.cfg = true)
  · exact Or.inr h
  · exact Or.inl h

/-- the witnesses sit inside their triggers -/
example : trigInvalidSchemaAssumed wInvalidSchema.schema wInvalidSchema.plugins = true := by decide
example : trigSchemaBuildTypeError wUnknownType.schema = true := by decide
example : trigNoGraphqlFiles wNoFiles = true := by decide
example : trigFragmentGenError wMixinFragment.queries = true := by decide

/-! ### the repaired configuration finding (regression theorem) and the open one -/

theorem configInvalid_of (env : Env) (cfg : J) (s : ClientSettings) (hraw : (readRawClient env cfg).result = .ok s)
    (hn : ¬ Documented env s) : ConfigInvalid env cfg := by
  unfold ConfigInvalid; rw [hraw]; exact hn

/-- **C17_F2_witness_now_ok** (regression theorem for the repaired finding C17-F2): the old witness
    — `fragments_module_name = "not-valid"`, an invalid configuration — now lies inside the region
    of `C17_partial` and satisfies the property: the command fails in the settings phase with
    `InvalidConfiguration` naming the value, and nothing was written. -/
theorem C17_F2_witness_now_ok :
    Invalid wFragmentsModule ∧ InDomain wFragmentsModule ∧ Supported wFragmentsModule ∧
    RejectedUpFront (client wFragmentsModule) ∧
    (client wFragmentsModule).result = .error (.settings, .config (.badIdentifier "not-valid")) := by
  have hinv : Invalid wFragmentsModule := by
    refine Or.inl ?_
    obtain ⟨s, hs⟩ := (isOk_iff _).mp (show isOk (readRawClient wFragmentsModule.env wFragmentsModule.cfg).result = true by decide)
    refine configInvalid_of _ _ s hs (fun d => ?_)
    have hn : (readRawClient wFragmentsModule.env wFragmentsModule.cfg).result.toOption.map (·.fragmentsModuleName) = some "not-valid" := by decide
    rw [hs] at hn
    simp only [Except.toOption, Option.map, Option.some.injEq] at hn
    have := d.fragmentsModule
    rw [hn] at this
    revert this
    decide
  have hdom : InDomain wFragmentsModule :=
    ⟨fun e he => (by
        have h : (getClientSettings wFragmentsModule.env wFragmentsModule.cfg).result = .error (.badIdentifier "not-valid") := by decide
        rw [h] at he; injection he with he; subst he; rfl),
     fun c hc => (by
        have h : wFragmentsModule.schema.remote = .ok := rfl
        rw [h] at hc; cases hc),
     rfl⟩
  have hsup : Supported wFragmentsModule := by simp only [Supported]; decide
  exact ⟨hinv, hdom, hsup, C17_partial _ hdom hsup hinv, by decide⟩

/-- F7: `base_client_name = "MyBase"` for a file that only declares `MyBaseClient` -/
def wClassPrefix : ClientRun :=
  { wBase with env := prefEnv,
               cfg := wCfg [("base_client_name", .str "MyBase"), ("base_client_file_path", .str "/w/custom_base.py")] }

theorem class_prefix_invalid_but_accepted :
    Invalid wClassPrefix ∧ isOk (client wClassPrefix).result = true ∧
    trigClassSubstring wClassPrefix.env wClassPrefix.cfg = true := by
  refine ⟨Or.inl ?_, by decide, by decide⟩
  obtain ⟨s, hs⟩ := (isOk_iff _).mp (show isOk (readRawClient wClassPrefix.env wClassPrefix.cfg).result = true by decide)
  refine configInvalid_of _ _ s hs (fun d => ?_)
  have hn : (readRawClient wClassPrefix.env wClassPrefix.cfg).result.toOption.map
      (fun s => (s.baseClientName, s.baseClientFilePath)) = some ("MyBase", "/w/custom_base.py") := by decide
  rw [hs] at hn
  simp only [Except.toOption, Option.map, Option.some.injEq, Prod.mk.injEq] at hn
  have := d.baseClientClass
  have hcond : ("MyBase" == "" && "/w/custom_base.py" == "") = false := by decide
  simp only [baseClientData, hn.1, hn.2, hcond, Bool.false_eq_true, if_false] at this
  revert this
  decide

end Ariadne.C17
