import AriadneModel.Model.Settings
import AriadneModel.Model.Pipeline

namespace Ariadne.C17
open Ariadne Ariadne.Settings Ariadne.Pipeline

theorem stub_no_write_before_generate (r : ClientRun) (e : Phase × PyErr) (h : prepare r = .error e) :
    (client r).log = [] := by
  simp [client, h]

end Ariadne.C17
