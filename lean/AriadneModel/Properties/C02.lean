/-
  C02 — The document sent is the document written.

  "For every operation, the query text its generated client method hands to the transport parses, is
   valid against the user's schema under the full specification rule set, and is sent with an
   operationName naming its single operation.  After undoing the two documented rewrites (automatic
   __typename in abstract selections, removal of the codegen-only @mixin directive) it is AST-equal to
   the authored operation followed by exactly the fragment definitions reachable from it; no string
   literal, argument, alias, directive, default value or variable definition is altered."

  Two models carry the statement (DESIGN.md §3 C02):

  * `Model/OpText.lean`  — the DOCUMENT that `get_operation_as_str` prints for an operation, produced by
    `addOperation` on top of the result-type generator's state (`Model/ResultTypes.lean`);
  * `Model/Embed.lean` + `Spec/PyStr.lean` — the STRING pipeline from the printed text to the value of
    the `"""…"""` literal in the generated client (what the transport receives).

  The property is FALSE on the pinned tree:
    - document side: `C02_full_false` (finding C02-F6: `@mixin` stays on a sent fragment definition) and
      `C02_full_false_dropped_spread` (finding C02-F7: a reachable fragment is not sent);
    - text side, inside the model: `C02_full_false_escN` (findings C02-F2/F3: a backslash-`n` pair inside a line
      becomes a line continuation of the emitted Python literal) and `C02_full_false_lineSep` (C02-F8: U+2028 and the
      other `str.splitlines` separators become line breaks).  On every text without `'` and `"""` the model is exact
      and `embed_described` says in closed form what the transport receives;
    - text side, outside the model: the regions `quote` and `blockString` (findings C02-F1, F4, F5).  There the outcome
      is decided by the backtracking of two regexes over Python source whose quotes no longer pair up and by whether
      Python's / black's parser accepts the damaged module; the model answers `.unmodelled`, the findings are demonstrated
      on the real code by the harness on every run, and NO theorem is claimed for them (DESIGN.md §1.2, Model/Embed.lean).
  What holds is `C02_partial`: outside the triggers (`Supported_02` for the document, `trigger q = none` for the text) and
  with no further hypothesis.  The former side condition `Proved_02` ("the generator registered only reachable
  fragments") is now the theorem `generator_state_sound`, proved for every environment, fuel, operation and `marksIn`
  by induction over the fuelled state-monad recursion of `_parse_type_definition` / `_resolve_selection_set`
  (Proofs/C02Registered.lean).  It is a statement about ONE `ResultTypesGenerator`: `_fragments_used_as_mixins` and
  `_unpacked_fragments` are attributes initialised to `set()` in `__init__`, and `PackageGenerator.add_operation`
  constructs a fresh generator per operation — only the `__typename` insertions (`marksIn`) survive between operations.

  Not in this file: graphql-core's `print_ast`/`parse` between the two models (observed by the harness),
  black/isort/autoflake on the emitted module.  "Re-indentation does not change the GraphQL parse" is proved at
  token level (`indent_invariant`, over the reference lexer of Spec/GqlLex.lean) and observed at AST level by the oracle.
-/
import AriadneModel.Proofs.OpText
import AriadneModel.Proofs.C02Registered
import AriadneModel.Proofs.Embed
import AriadneModel.Proofs.EmbedBN
import AriadneModel.Proofs.EmbedExact
import AriadneModel.Proofs.GqlLex

set_option linter.unusedSimpArgs false
set_option linter.unusedVariables false

namespace Ariadne.C02
open Ariadne Ariadne.Gql Ariadne.Util Ariadne.ResultTypes Ariadne.OpText Ariadne.Embed Ariadne.PyStr
open Ariadne.OpTextProofs Ariadne.EmbedProofs Ariadne.GqlLex

/-! ### Vocabulary -/

/-- What operation validation at load time (`get_graphql_queries`: `validate` against the schema with the
    injected `@mixin(from, import) repeatable on FIELD | FRAGMENT_DEFINITION`) guarantees and the theorems use:
    `@mixin` stands only where that directive may stand. -/
structure Valid (env : Env) (o : Operation) : Prop where
  opSel : mixinPlacedSels o.sel = true
  fragSel : ∀ n f, findFragment? env.frags n = some f → mixinPlacedSels f.sel = true
  opDirs : o.dirs.any isMixin = false

/-- `_get_all_related_fragments()` for a generator state (`[]` when the Python code raises) -/
def relatedOf (env : Env) (fuel : Nat) (st : St) : List String :=
  match relatedFragments env.frags fuel st.mixins st.unpacked with
  | .ok r => r
  | .error _ => []

/-- trigger of finding C02-F6 -/
def trigMixinOnFragDef (env : Env) (fuel : Nat) (st : St) : Bool := mixinOnSentFragment env.frags (relatedOf env fuel st)
/-- trigger of finding C02-F7 -/
def trigDroppedSpread (env : Env) (fuel : Nat) (o : Operation) (st : St) : Bool :=
  droppedSpread env.frags o st.unpacked (relatedOf env fuel st)

/-- theorem region ∪ finding regions = all inputs, by definition -/
def Supported_02 (env : Env) (fuel : Nat) (o : Operation) (st : St) : Prop :=
  ¬ (trigMixinOnFragDef env fuel st = true ∨ trigDroppedSpread env fuel o st = true)

/-- the generator state mentions only fragments reachable from the operation (the Boolean `stateSound` of the driver,
    compared with the real generator's sets on every correspondence case).  Not a hypothesis of anything any more:
    `generator_state_sound` proves it for every run of the generator. -/
def StateSound (env : Env) (o : Operation) (st : St) : Prop :=
  ∀ m, m ∈ st.mixins ∨ m ∈ st.unpacked → Reach env.frags o.sel m

/-- The document clause of the property for one operation: `d` is what is sent, `st` the generator state. -/
structure DocOK (env : Env) (o : Operation) (d : Doc) (st : St) : Prop where
  /-- `operationName` names the single operation of the document (`Doc` has exactly one by construction) -/
  opName : sentOperationName o = d.op.name ∧ d.op.name = o.name
  /-- fragment definitions: each once, in sorted order … -/
  sorted : (d.frags.map (·.name)).Pairwise (· < ·)
  /-- … and exactly the ones reachable from the operation -/
  exact : ∀ n, n ∈ d.frags.map (·.name) ↔ Reach env.frags o.sel n
  /-- after undoing the rewrites the operation is the authored one -/
  opEq : undoOp st.marks d.op = expectedOp o
  /-- … and so is every fragment definition -/
  fragEq : ∀ f' ∈ d.frags, ∃ f, findFragment? env.frags f'.name = some f ∧ undoFrag st.marks f' = expectedFrag f

/-- text clause: the transport receives the printed text, re-indented, character for character (`expectedText`:
    only `\n` ends a line; every character of every line is kept).
    (Texts of at least two lines: a printed operation has at least three, and `format_multiline_strings` only
    rewrites two or more adjacent constants — the model is validated on that domain.) -/
def TextOK (env : Char → Bool) (vi off : Nat) (q : List Char) : Prop :=
  sentText env vi off q = some (expectedText (vi + off) q)

/-- The property at full strength (both clauses, every input). -/
def C02_full : Prop :=
  (∀ (env : Env) (fuel : Nat) (o : Operation) (marksIn : List Nat) (d : Doc) (st : St),
      Valid env o → addOperation env fuel o marksIn = .ok (d, st) → DocOK env o d st)
  ∧ (∀ (penv : Char → Bool) (vi off : Nat) (q : List Char), 2 ≤ (splitlines q).length → TextOK penv vi off q)

/-! ### The closure -/

/-- `_get_fragments_names(selection_set)` is exactly the set of fragments reachable from the selection set through
    the spread graph (all inputs; DFS-closure induction over the fuel). -/
theorem fragment_names_iff_reachable (frags : List Fragment) (fuel : Nat) (sels : List Selection) (L : List String)
    (h : fragNames frags fuel sels = .ok L) (n : String) : n ∈ L ↔ Reach frags sels n :=
  fragNames_iff frags fuel sels L h n

/-- `closure_sound` (all inputs): what `_get_all_related_fragments` adds to the generator's sets is reachable —
    the related set is within the reachable set as soon as the generator's own sets are. -/
theorem closure_sound (frags : List Fragment) (fuel : Nat) (sels : List Selection) (mixins unpacked related : List String)
    (h : relatedFragments frags fuel mixins unpacked = .ok related)
    (hst : ∀ m, m ∈ mixins ∨ m ∈ unpacked → Reach frags sels m) :
    ∀ n ∈ related, Reach frags sels n := by
  intro n hn
  rcases (related_iff frags fuel mixins unpacked related h n).mp hn with hn | hn | ⟨m, hm, f, hf, hr⟩
  · exact hst n (Or.inl hn)
  · exact hst n (Or.inr hn)
  · exact reach_step (hst m (Or.inl hm)) hf hr

/-- `closure_complete`: no dropped spread ⇒ every reachable fragment is related. -/
theorem closure_complete (frags : List Fragment) (fuel : Nat) (o : Operation) (mixins unpacked related : List String)
    (h : relatedFragments frags fuel mixins unpacked = .ok related)
    (hnd : droppedSpread frags o unpacked related = false) :
    ∀ n, Reach frags o.sel n → n ∈ related := by
  intro n hn
  have hiff := related_iff frags fuel mixins unpacked related h
  simp only [droppedSpread, Bool.not_eq_false', Bool.and_eq_true, List.all_eq_true] at hnd
  obtain ⟨h0, hu⟩ := hnd
  have h0' := (subset_iff _ _).mp h0
  refine reach_of_closed h0' ?_ hn
  intro a ha b hab
  obtain ⟨fa, hfa, hb⟩ := hab
  rcases (hiff a).mp ha with ha | ha | ⟨m, hm, f, hf, hr⟩
  · exact (hiff b).mpr (Or.inr (Or.inr ⟨a, ha, fa, hfa, ⟨b, hb, .refl⟩⟩))
  · have := hu a ha
    rw [hfa] at this
    exact (subset_iff _ _).mp this b hb
  · obtain ⟨r, hr0, hp⟩ := hr
    exact (hiff b).mpr (Or.inr (Or.inr ⟨m, hm, f, hf, ⟨r, hr0, hp.tail ⟨fa, hfa, hb⟩⟩⟩))

/-- Fuel is a proof device only: once `_get_fragments_names` answers, every larger fuel gives the same answer
    (the drivers' large constant is immaterial; exhaustion models Python's RecursionError on a spread cycle). -/
theorem fuel_irrelevant (frags : List Fragment) (fuel fuel' : Nat) (hle : fuel ≤ fuel') (sels : List Selection) (L : List String)
    (h : fragNames frags fuel sels = .ok L) : fragNames frags fuel' sels = .ok L :=
  fragNames_mono_le frags fuel fuel' hle sels L h

/-- The finding region of C02-F7 is exactly the failure region: (given that the state is sound — `generator_state_sound`) a spread was dropped iff a
    reachable fragment is missing from what is sent. -/
theorem dropped_iff_missing (frags : List Fragment) (fuel : Nat) (o : Operation) (mixins unpacked related : List String)
    (h : relatedFragments frags fuel mixins unpacked = .ok related)
    (hst : ∀ m, m ∈ mixins ∨ m ∈ unpacked → Reach frags o.sel m) :
    droppedSpread frags o unpacked related = true ↔ ∃ n, Reach frags o.sel n ∧ n ∉ related := by
  constructor
  · intro hd
    simp only [droppedSpread, Bool.not_eq_true', Bool.and_eq_false_iff] at hd
    rcases hd with hd | hd
    · have : ¬ ∀ x ∈ directSels o.sel, x ∈ related := by
        intro hall
        rw [(subset_iff _ _).mpr hall] at hd
        cases hd
      simp only [not_forall] at this
      obtain ⟨x, hx, hnx⟩ := this
      exact ⟨x, ⟨x, hx, .refl⟩, hnx⟩
    · rw [List.all_eq_false] at hd
      obtain ⟨u, hu, hbad⟩ := hd
      cases hf : findFragment? frags u with
      | none => rw [hf] at hbad; simp at hbad
      | some f =>
        rw [hf] at hbad
        simp only at hbad
        have : ¬ ∀ x ∈ directSels f.sel, x ∈ related := by
          intro hall
          exact hbad ((subset_iff _ _).mpr hall)
        simp only [not_forall] at this
        obtain ⟨x, hx, hnx⟩ := this
        exact ⟨x, reach_step (hst u (Or.inr hu)) hf ⟨x, hx, .refl⟩, hnx⟩
  · rintro ⟨n, hn, hnr⟩
    cases hd : droppedSpread frags o unpacked related with
    | true => rfl
    | false => exact absurd (closure_complete frags fuel o mixins unpacked related h hd n hn) hnr

/-- `closure_walks_through_registered` (all inputs): the walk below an inherited fragment does not stop at a fragment the
    generator has registered already.  Whatever an inherited fragment `m` reaches — in particular a fragment `u` that was
    UNPACKED at another position of the operation, where part of it was not followed (an inline fragment on a sibling
    type, a spread on an overlapping interface) — is walked in full: every spread written in `u` is in the related set.
    (A walk that marks the registered names as visited loses exactly these spreads.) -/
theorem closure_walks_through_registered (frags : List Fragment) (fuel : Nat) (mixins unpacked related : List String)
    (h : relatedFragments frags fuel mixins unpacked = .ok related)
    (m : String) (hm : m ∈ mixins) (fm : Fragment) (hfm : findFragment? frags m = some fm)
    (u : String) (hu : Reach frags fm.sel u) (fu : Fragment) (hfu : findFragment? frags u = some fu) :
    u ∈ related ∧ ∀ x ∈ directSels fu.sel, x ∈ related := by
  have hiff := related_iff frags fuel mixins unpacked related h
  refine ⟨(hiff u).mpr (Or.inr (Or.inr ⟨m, hm, fm, hfm, hu⟩)), ?_⟩
  intro x hx
  obtain ⟨r, hr, hp⟩ := hu
  exact (hiff x).mpr (Or.inr (Or.inr ⟨m, hm, fm, hfm, ⟨r, hr, hp.tail ⟨fu, hfu, hx⟩⟩⟩))

/-- The region of finding C02-F7 is no wider than the defect: when `droppedSpread` fires, the spread whose fragment is
    missing is written in the operation itself, or in an unpacked fragment that NO inherited fragment reaches.  A spread
    the generator skipped where a fragment was unpacked, but which the closure walk meets below an inherited fragment,
    is outside the trigger (the unchanged code sends its fragment). -/
theorem dropped_only_outside_walk (frags : List Fragment) (fuel : Nat) (o : Operation) (mixins unpacked related : List String)
    (h : relatedFragments frags fuel mixins unpacked = .ok related)
    (hd : droppedSpread frags o unpacked related = true) :
    (∃ x ∈ directSels o.sel, x ∉ related)
    ∨ ∃ u ∈ unpacked, ∃ fu, findFragment? frags u = some fu ∧ (∃ x ∈ directSels fu.sel, x ∉ related)
        ∧ ∀ m ∈ mixins, ∀ fm, findFragment? frags m = some fm → ¬ Reach frags fm.sel u := by
  simp only [droppedSpread, Bool.not_eq_true', Bool.and_eq_false_iff] at hd
  rcases hd with hd | hd
  · left
    have : ¬ ∀ x ∈ directSels o.sel, x ∈ related := by
      intro hall
      rw [(subset_iff _ _).mpr hall] at hd
      cases hd
    simp only [not_forall] at this
    obtain ⟨x, hx, hnx⟩ := this
    exact ⟨x, hx, hnx⟩
  · right
    rw [List.all_eq_false] at hd
    obtain ⟨u, hu, hbad⟩ := hd
    cases hf : findFragment? frags u with
    | none => rw [hf] at hbad; simp at hbad
    | some fu =>
      rw [hf] at hbad
      simp only at hbad
      have : ¬ ∀ x ∈ directSels fu.sel, x ∈ related := by
        intro hall
        exact hbad ((subset_iff _ _).mpr hall)
      simp only [not_forall] at this
      obtain ⟨x, hx, hnx⟩ := this
      refine ⟨u, hu, fu, hf, ⟨x, hx, hnx⟩, ?_⟩
      intro m hm fm hfm hreach
      exact hnx ((closure_walks_through_registered frags fuel mixins unpacked related h m hm fm hfm u hreach fu hf).2 x hx)

/-! ### The sent document -/

theorem addOperation_inv {env : Env} {fuel : Nat} {o : Operation} {marksIn : List Nat} {d : Doc} {st : St}
    (h : addOperation env fuel o marksIn = .ok (d, st)) :
    ∃ related fs, relatedFragments env.frags fuel st.mixins st.unpacked = .ok related
      ∧ lookupAll env.frags st.marks (sentNames related) = .ok fs
      ∧ d = { op := sentOp st.marks o, frags := fs }
      ∧ ∃ out, generate env fuel (.op o) marksIn = .ok out ∧ out.st = st := by
  simp only [addOperation] at h
  cases hg : generate env fuel (.op o) marksIn with
  | error e => rw [hg] at h; cases h
  | ok out =>
    rw [hg] at h
    simp only at h
    cases hs : sentDoc env.frags fuel o out.st with
    | error e => rw [hs] at h; cases h
    | ok d' =>
      rw [hs] at h
      simp only [Except.ok.injEq, Prod.mk.injEq] at h
      obtain ⟨rfl, rfl⟩ := h
      simp only [sentDoc] at hs
      cases hr : relatedFragments env.frags fuel out.st.mixins out.st.unpacked with
      | error e => rw [hr] at hs; cases hs
      | ok related =>
        rw [hr] at hs
        simp only at hs
        cases hl : lookupAll env.frags out.st.marks (sentNames related) with
        | error e => rw [hl] at hs; cases hs
        | ok fs =>
          rw [hl] at hs
          simp only [Except.ok.injEq] at hs
          exact ⟨related, fs, rfl, hl, hs.symm, out, rfl, rfl⟩

/-- **`generator_state_sound`** (was the side condition `Proved_02`): for every environment, fuel, operation and
    generator history `marksIn`, the `ResultTypesGenerator` constructed for operation `o` registers — in
    `_fragments_used_as_mixins` and in `_unpacked_fragments` — only fragments reachable from `o`'s selection set through
    the spread graph.  Induction over the fuel of `_parse_type_definition` / `_parse_field_selection_set_types` /
    `_resolve_selection_set` (Proofs/C02Registered.lean `generate_registers_reachable`, on the reasoning principles of
    Proofs/C08Monad.lean); the sets are per generator object, i.e. per operation. -/
theorem generator_state_sound (env : Env) (fuel : Nat) (o : Operation) (marksIn : List Nat) (d : Doc) (st : St)
    (h : addOperation env fuel o marksIn = .ok (d, st)) : StateSound env o st := by
  obtain ⟨_, _, _, _, _, out, hg, rfl⟩ := addOperation_inv h
  exact generate_registers_reachable env fuel (.op o) marksIn out hg

/-- the same for the generator `FragmentsGenerator` constructs for a fragment definition (relative to the fragment's
    own selection set) -/
theorem fragment_generator_state_sound (env : Env) (fuel : Nat) (f : Fragment) (marksIn : List Nat) (out : ModuleOut)
    (h : generate env fuel (.frag f) marksIn = .ok out) :
    ∀ m, m ∈ out.st.mixins ∨ m ∈ out.st.unpacked → Reach env.frags f.sel m :=
  generate_registers_reachable env fuel (.frag f) marksIn out h

/-- `sent_doc_shape`: the document sent for an operation is `op' :: (sorted related).map frag'` with
    `x' = addTypename (stripFieldMixin x)`: one operation, named by `operationName`; every related fragment once,
    in sorted order; and — outside the two triggers, with no further hypothesis — after undoing the two rewrites it is the
    authored operation followed by exactly the reachable fragment definitions. -/
theorem sent_doc_shape (env : Env) (fuel : Nat) (o : Operation) (marksIn : List Nat) (d : Doc) (st : St)
    (hv : Valid env o) (h : addOperation env fuel o marksIn = .ok (d, st))
    (hs : Supported_02 env fuel o st) : DocOK env o d st := by
  have hp : StateSound env o st := generator_state_sound env fuel o marksIn d st h
  obtain ⟨related, fs, hr, hl, rfl, _⟩ := addOperation_inv h
  have hrel : relatedOf env fuel st = related := by simp [relatedOf, hr]
  have hmix : mixinOnSentFragment env.frags related = false := by
    cases hm : mixinOnSentFragment env.frags related with
    | false => rfl
    | true => exact absurd (Or.inl (by simp [trigMixinOnFragDef, hrel, hm])) hs
  have hdrop : droppedSpread env.frags o st.unpacked related = false := by
    cases hm : droppedSpread env.frags o st.unpacked related with
    | false => rfl
    | true => exact absurd (Or.inr (by simp [trigDroppedSpread, hrel, hm])) hs
  have hall := lookupAll_spec env.frags st.marks _ _ hl
  have hnames := forall2_names hall
  obtain ⟨hsorted, hmem⟩ := sentNames_spec related
  refine ⟨⟨rfl, rfl⟩, ?_, ?_, ?_, ?_⟩
  · simpa [hnames] using hsorted
  · intro n
    simp only [hnames, hmem]
    constructor
    · exact closure_sound env.frags fuel o.sel st.mixins st.unpacked related hr hp n
    · exact closure_complete env.frags fuel o st.mixins st.unpacked related hr hdrop n
  · simp only [undoOp, sentOp, expectedOp, undo_sentSet st.marks o.sid o.sel hv.opSel, filter_noMixin o.dirs hv.opDirs]
  · intro f' hf'
    have : ∀ (ns : List String) (gs : List Fragment),
        List.Forall₂ (fun n g' => ∃ g, findFragment? env.frags n = some g ∧ g' = sentFrag st.marks g) ns gs →
        (∀ n ∈ ns, n ∈ related) → ∀ g' ∈ gs, ∃ g, findFragment? env.frags g'.name = some g ∧ g' = sentFrag st.marks g ∧ g.name ∈ related := by
      intro ns gs hfa
      induction hfa with
      | nil => intro _ g' hg'; cases hg'
      | cons hx _ ih =>
        intro hsub g' hg'
        rcases List.mem_cons.mp hg' with rfl | hg'
        · obtain ⟨g, hg, rfl⟩ := hx
          have hn := OpTextProofs.findFragment_name hg
          refine ⟨g, ?_, rfl, ?_⟩
          · simpa [sentFrag, hn] using hg
          · rw [hn]; exact hsub _ (by simp)
        · exact ih (fun n hn => hsub n (by simp [hn])) g' hg'
    obtain ⟨f, hf, rfl, hfr⟩ := this _ _ hall (fun n hn => (hmem n).mp hn) f' hf'
    refine ⟨f, hf, ?_⟩
    have hname : findFragment? env.frags f.name = some f := by simpa [sentFrag] using hf
    have hnomix : f.dirs.any isMixin = false := by
      simp only [mixinOnSentFragment, List.any_eq_false] at hmix
      have := hmix f.name hfr
      rw [hname] at this
      simpa using this
    simp only [undoFrag, sentFrag, expectedFrag, undo_sentSet st.marks f.sid f.sel (hv.fragSel _ _ hname), filter_noMixin f.dirs hnomix]

/-! ### The embedding -/

/-- `embed_safe` on the line list: induction over the lines; pure string reasoning. -/
theorem embed_safe_lines (penv : Char → Bool) (vi off : Nat) (ls : List (List Char)) (hne : ls ≠ [])
    (h : ∀ l ∈ ls, SafeLine l) :
    evalTripleQuoted (convert vi off (unparseConsts penv (ls.map (· ++ ['\n']))))
      = some ('\n' :: (indentLines (vi + off) ls ++ List.replicate (vi + off) ' ')) :=
  embed_lines penv vi off ls hne h

/-- `embed_safe`: for every operation text outside the four text triggers — in particular with `"`, `#`, `=`,
    backslash escapes other than `\n`, any Unicode, printable or not — and for every `isprintable` environment,
    Python reads back from the emitted triple-quoted literal
        "\n" ++ (every line, indented unless blank) ++ (indentation of the closing quotes). -/
theorem embed_safe (penv : Char → Bool) (vi off : Nat) (q : List Char) (ht : trigger q = none) (hne : splitlines q ≠ []) :
    TextOK penv vi off q := by
  unfold TextOK
  rw [embed_text penv vi off q ht hne, expectedSent_eq_expectedText _ q (trigger_none q ht).2.2.2]

/-- `indent_invariant` (stretch tier): re-indentation keeps the GraphQL tokens (reference lexer of
    Spec/GqlLex.lean — line-local, no block strings; validated against graphql-core's lexer on every run). -/
theorem indent_invariant (k : Nat) (q : List Char) : lexText (expectedSent k q) = lexText q :=
  GqlLexProofs.indent_invariant k q

/-- the text clause at token level: outside the text triggers the transport receives a text with exactly the
    tokens of the printed operation (same names, punctuators, numbers and raw string literals, in order). -/
theorem sent_tokens (penv : Char → Bool) (vi off : Nat) (q : List Char) (ht : trigger q = none) (hne : splitlines q ≠ []) :
    ∃ s, sentText penv vi off q = some s ∧ lexText s = lexText q :=
  ⟨expectedSent (vi + off) q, embed_text penv vi off q ht hne, indent_invariant (vi + off) q⟩

/-- **`embed_described`**: what the rewriter does, exactly, on EVERY text without `'` and `"""` — safe or inside the
    finding regions `escN` / `lineSep`, for every `isprintable` environment and both embeddings (`vi`, `off`): the
    transport receives `describedSent`: a leading newline; per `str.splitlines` line, the line cut at its backslash-`n`
    pairs with every segment indented (the last one unless blank) and the pairs gone; the indentation of the closing
    quotes.  (A separator other than `\n` has become a line break; `\n` inside a literal has become indentation.) -/
theorem embed_described (penv : Char → Bool) (vi off : Nat) (q : List Char) (htq : hasTQ q = false) (hq : hasQuote q = false)
    (hne : splitlines q ≠ []) : sentText penv vi off q = some (describedSent (vi + off) q) :=
  embed_described_text penv vi off q htq hq hne

/-- **`text_clause_iff`**: the finding regions `escN` (C02-F2, F3) and `lineSep` (C02-F8) are exactly the failure region
    of the text clause among the texts the model answers on: a text without `'` and `"""` reaches the transport
    character for character IF AND ONLY IF it is outside every text trigger.  (Counting argument, Proofs/EmbedExact.lean:
    the rewriter adds only blanks and newlines, a backslash-`n` pair costs two other characters, a separator one.) -/
theorem text_clause_iff (penv : Char → Bool) (vi off : Nat) (q : List Char) (htq : hasTQ q = false) (hq : hasQuote q = false)
    (hne : splitlines q ≠ []) : TextOK penv vi off q ↔ trigger q = none := by
  constructor
  · intro h
    unfold TextOK at h
    rw [embed_described penv vi off q htq hq hne, Option.some.injEq] at h
    obtain ⟨hb, he⟩ := described_eq_expected (vi + off) q h
    simp [trigger, htq, hq, hb, he]
  · intro ht
    exact embed_safe penv vi off q ht hne

/-- inside the regions `quote` and `blockString` the model declines (no claim is made there; DESIGN.md §1.2) -/
theorem embed_unmodelled (penv : Char → Bool) (vi off : Nat) (q : List Char) (t : Trig) (ht : trigger q = some t)
    (hd : t.declined = true) : sentText penv vi off q = none := by
  cases t <;> simp [Trig.declined] at hd <;> simp [sentText, embed, ht]

/-! ### Witnesses -/

def wQuery : TypeDef := { name := "Query", kind := .object, fields := [{ name := "me", type := TypeRef.named "User" }, { name := "node", type := TypeRef.named "Node" }] }
def wNode : TypeDef := { name := "Node", kind := .interface, fields := [{ name := "id", type := TypeRef.nonNull (TypeRef.named "ID") }] }
def wNamed : TypeDef := { name := "Named", kind := .interface, fields := [{ name := "name", type := TypeRef.named "String" }] }
def wUser : TypeDef :=
  { name := "User", kind := .object, interfaces := ["Node", "Named"],
    fields := [{ name := "id", type := TypeRef.nonNull (TypeRef.named "ID") }, { name := "name", type := TypeRef.named "String" }] }
def wSchema : Schema := Schema.mk [wQuery, wNode, wNamed, wUser] (some "Query") none none

/-- finding C02-F6: `query Q { me { ...F } }  fragment F on User @mixin(from: "abc", import: "ABC") { id }` -/
def wF6Frag : Fragment :=
  { name := "F", on := "User", dirs := [{ name := "mixin", args := [("from", some "abc"), ("import", some "ABC")] }], sid := 3,
    sel := [.field none "id" [] 0 []] }
def wF6Op : Operation := { kind := .query, name := some "Q", sid := 1, sel := [.field none "me" [] 2 [.spread "F" []]] }
def wF6Env : Env := { schema := wSchema, frags := [wF6Frag] }

/-- finding C02-F7: `query Q { node { id ...F } }  fragment F on Named { name }` -/
def wF7Frag : Fragment := { name := "F", on := "Named", sid := 3, sel := [.field none "name" [] 0 []] }
def wF7Op : Operation :=
  { kind := .query, name := some "Q", sid := 1, sel := [.field none "node" [] 2 [.field none "id" [] 0 [], .spread "F" []]] }
def wF7Env : Env := { schema := wSchema, frags := [wF7Frag] }

def sentHasMixinFragment : Except GenErr (Doc × St) → Bool
  | .ok (d, _) => d.frags.any fun f => f.dirs.any isMixin
  | .error _ => false

def sentFragmentNames : Except GenErr (Doc × St) → Option (List String)
  | .ok (d, _) => some (d.frags.map (·.name))
  | .error _ => none

set_option maxRecDepth 100000 in
theorem wF6_sent : sentHasMixinFragment (addOperation wF6Env 20 wF6Op []) = true := by decide

set_option maxRecDepth 100000 in
theorem wF7_sent : sentFragmentNames (addOperation wF7Env 20 wF7Op []) = some [] := by decide

theorem wF6_valid : Valid wF6Env wF6Op := by
  refine ⟨by decide, ?_, by decide⟩
  intro n f hf
  have : f ∈ wF6Env.frags := List.mem_of_find?_eq_some hf
  simp only [wF6Env, List.mem_singleton] at this
  subst this
  decide

theorem wF7_valid : Valid wF7Env wF7Op := by
  refine ⟨by decide, ?_, by decide⟩
  intro n f hf
  have : f ∈ wF7Env.frags := List.mem_of_find?_eq_some hf
  simp only [wF7Env, List.mem_singleton] at this
  subst this
  decide

/-- The property is false (finding C02-F6): a fragment definition carrying `@mixin` is sent with the directive,
    so undoing the documented rewrites does not give the authored document without `@mixin` (and the user's
    schema does not know the directive). -/
theorem C02_full_false : ¬ C02_full := by
  intro hfull
  have hw := wF6_sent
  cases h : addOperation wF6Env 20 wF6Op [] with
  | error e => rw [h] at hw; simp [sentHasMixinFragment] at hw
  | ok p =>
    obtain ⟨d, st⟩ := p
    rw [h] at hw
    simp only [sentHasMixinFragment, List.any_eq_true] at hw
    obtain ⟨f', hf', dir, hdir, hm⟩ := hw
    obtain ⟨f, _, he⟩ := (hfull.1 wF6Env 20 wF6Op [] d st wF6_valid h).fragEq f' hf'
    have hd : f'.dirs = f.dirs.filter (!isMixin ·) := by
      have := congrArg Fragment.dirs he
      simpa [undoFrag, expectedFrag] using this
    rw [hd, List.mem_filter] at hdir
    simp [hm] at hdir

/-- The property is false also through finding C02-F7: the fragment `F` is reachable from the operation (the
    spread is printed) but its definition is not sent. -/
theorem C02_full_false_dropped_spread : ¬ C02_full := by
  intro hfull
  have hw := wF7_sent
  cases h : addOperation wF7Env 20 wF7Op [] with
  | error e => rw [h] at hw; simp [sentFragmentNames] at hw
  | ok p =>
    obtain ⟨d, st⟩ := p
    rw [h] at hw
    simp only [sentFragmentNames, Option.some.injEq] at hw
    have hr : Reach wF7Env.frags wF7Op.sel "F" := ⟨"F", by decide, .refl⟩
    have := ((hfull.1 wF7Env 20 wF7Op [] d st wF7_valid h).exact "F").mpr hr
    rw [hw] at this
    cases this

/-! ### The text clause is false inside the model's regions `escN` and `lineSep` -/

/-- finding C02-F2: `query Q {⏎  echo(s: "a\nb")⏎}` (the GraphQL escape backslash-`n` inside a string literal) -/
def wEscN : List Char := "query Q {\n  echo(s: \"a\\nb\")\n}".toList
/-- finding C02-F3: an escaped backslash followed by `n`: `"a\\nb"` -/
def wEscBsN : List Char := "query Q {\n  echo(s: \"a\\\\nb\")\n}".toList
/-- finding C02-F8: U+2028 inside a string literal (printed raw by `print_ast`) -/
def wLineSep : List Char := "query Q {\n  echo(s: \"a".toList ++ [Char.ofNat 0x2028] ++ "b\")\n}".toList

example : trigger wEscN = some .escN ∧ trigger wEscBsN = some .escN ∧ trigger wLineSep = some .lineSep := by
  refine ⟨by decide, by decide, by decide⟩

/-- what the generated client method hands to the transport for `wEscN`, in a client module (indentation 8 + 4):
    the literal `"a\nb"` has become `"a            b"` — the GraphQL string value changed from a-newline-b to
    a-twelve-blanks-b (silently: the text still parses and validates) -/
theorem wEscN_sent (penv : Char → Bool) :
    sentText penv 8 4 wEscN
      = some "\n            query Q {\n              echo(s: \"a            b\")\n            }\n            ".toList := by
  rw [embed_described penv 8 4 wEscN (by decide) (by decide) (by decide)]
  decide

/-- … and for `wEscBsN`: `"a\\nb"` has become `"a\            b"` — backslash-blank is not a GraphQL escape: the server
    rejects the document (finding C02-F3) -/
theorem wEscBsN_sent (penv : Char → Bool) :
    sentText penv 8 4 wEscBsN
      = some "\n            query Q {\n              echo(s: \"a\\            b\")\n            }\n            ".toList := by
  rw [embed_described penv 8 4 wEscBsN (by decide) (by decide) (by decide)]
  decide

/-- … and for `wLineSep`: the literal is cut in two lines — an unterminated string (finding C02-F8) -/
theorem wLineSep_sent (penv : Char → Bool) :
    sentText penv 8 4 wLineSep
      = some "\n            query Q {\n              echo(s: \"a\n            b\")\n            }\n            ".toList := by
  rw [embed_described penv 8 4 wLineSep (by decide) (by decide) (by decide)]
  decide

/-- The property is false (findings C02-F2/F3), at model level: a text with a backslash-`n` pair does not reach the
    transport character for character. -/
theorem C02_full_false_escN : ¬ C02_full := by
  intro hfull
  have h := hfull.2 (fun _ => true) 8 4 wEscN (by decide)
  unfold TextOK at h
  rw [wEscN_sent] at h
  revert h
  decide

/-- The property is false (finding C02-F8), at model level: a text with a line separator other than `\n`. -/
theorem C02_full_false_lineSep : ¬ C02_full := by
  intro hfull
  have h := hfull.2 (fun _ => true) 8 4 wLineSep (by decide)
  unfold TextOK at h
  rw [wLineSep_sent] at h
  revert h
  decide

/-! ### What holds -/

/-- **C02_partial**: outside the finding triggers the property holds — the document clause for every valid
    operation in every generator history (`marksIn`: the `__typename` insertions left by the operations before it),
    the text clause for every text outside the four text triggers and every `isprintable`.  No other hypothesis:
    theorem region ∪ finding regions = all inputs. -/
theorem C02_partial :
    (∀ (env : Env) (fuel : Nat) (o : Operation) (marksIn : List Nat) (d : Doc) (st : St),
        Valid env o → addOperation env fuel o marksIn = .ok (d, st) →
        Supported_02 env fuel o st → DocOK env o d st)
    ∧ (∀ (penv : Char → Bool) (vi off : Nat) (q : List Char), 2 ≤ (splitlines q).length → trigger q = none → TextOK penv vi off q) :=
  ⟨fun env fuel o marksIn d st hv h hs => sent_doc_shape env fuel o marksIn d st hv h hs,
   fun penv vi off q hne ht => embed_safe penv vi off q ht (by intro h0; rw [h0] at hne; simp at hne)⟩

/-! ### Non-vacuity -/

/-- a supported operation with a nested, shared fragment graph and an automatic `__typename` -/
def exFragA : Fragment := { name := "A", on := "User", sid := 4, sel := [.field none "id" [] 0 [], .spread "B" []] }
def exFragB : Fragment := { name := "B", on := "User", sid := 5, sel := [.field none "name" [] 0 []] }
def exOp : Operation :=
  { kind := .query, name := some "Q", sid := 1,
    sel := [.field none "me" [{ name := "mixin", args := [("from", some "abc"), ("import", some "ABC")] }] 2 [.spread "A" []],
            .field none "node" [] 3 [.field none "id" [] 0 []]] }
def exEnv : Env := { schema := wSchema, frags := [exFragB, exFragA] }

def exSummary : Except GenErr (Doc × St) → Option (List String × List Nat × List String × List String × Bool × Bool)
  | .ok (d, st) => some (d.frags.map (·.name), st.marks, st.mixins, st.unpacked,
      mixinOnSentFragment exEnv.frags (relatedOf exEnv 20 st), droppedSpread exEnv.frags exOp st.unpacked (relatedOf exEnv 20 st))
  | .error _ => none

set_option maxRecDepth 100000 in
/-- the hypotheses of `C02_partial` are satisfiable by a non-trivial input: fragments A → B are sent sorted,
    `node { … }` got the automatic `__typename` (mark 3), neither trigger fires -/
example : exSummary (addOperation exEnv 20 exOp []) = some (["A", "B"], [3], ["A"], [], false, false) := by rfl

example : Valid exEnv exOp := by
  refine ⟨by decide, ?_, by decide⟩
  intro n f hf
  have : f ∈ exEnv.frags := List.mem_of_find?_eq_some hf
  simp only [exEnv, List.mem_cons, List.mem_singleton, List.not_mem_nil, or_false] at this
  rcases this with rfl | rfl <;> decide

set_option maxRecDepth 100000 in
/-- `generator_state_sound` / `fragment_generator_state_sound` are not vacuous: the generators of `exOp` and of the
    fragment `A` succeed and register fragments (`A` resp. `B`, inherited) -/
example : (match generate exEnv 20 (.frag exFragA) [] with
    | .ok out => some (out.st.mixins, out.st.unpacked)
    | .error _ => none) = some (["B"], []) := by rfl

example : Reach exEnv.frags exOp.sel "B" := ⟨"A", by decide, .single ⟨exFragA, rfl, by decide⟩⟩

/-- the regions in which the model declines -/
example : Trig.quote.declined = true ∧ Trig.blockString.declined = true ∧ Trig.escN.declined = false ∧ Trig.lineSep.declined = false :=
  ⟨rfl, rfl, rfl, rfl⟩

/-- TWO PATHS to one fragment (regression: seeded change `C02-related-fragments-visited-once`; corpus
    `ok_two_paths_sibling_inline.json`):
      query GetLibrary { featured { ...ItemParts } shelf { ...ShelfParts } }
      fragment ShelfParts on Shelf { id items { ...ItemParts } }
      fragment ItemParts on Item { id ... on Film { ...FilmParts } }      fragment FilmParts on Film { director }
    `ItemParts` is unpacked at the `Book` position (the inline fragment on `Film` is skipped: `FilmParts` is registered
    nowhere) and reached again below the inherited `ShelfParts`. -/
def tpQuery : TypeDef :=
  { name := "Query", kind := .object,
    fields := [{ name := "shelf", type := TypeRef.nonNull (TypeRef.named "Shelf") }, { name := "featured", type := TypeRef.nonNull (TypeRef.named "Book") }] }
def tpShelf : TypeDef :=
  { name := "Shelf", kind := .object,
    fields := [{ name := "id", type := TypeRef.nonNull (TypeRef.named "ID") },
               { name := "items", type := TypeRef.nonNull (TypeRef.list (TypeRef.nonNull (TypeRef.named "Item"))) }] }
def tpItem : TypeDef := { name := "Item", kind := .interface, fields := [{ name := "id", type := TypeRef.nonNull (TypeRef.named "ID") }] }
def tpBook : TypeDef :=
  { name := "Book", kind := .object, interfaces := ["Item"],
    fields := [{ name := "id", type := TypeRef.nonNull (TypeRef.named "ID") }, { name := "title", type := TypeRef.nonNull (TypeRef.named "String") }] }
def tpFilm : TypeDef :=
  { name := "Film", kind := .object, interfaces := ["Item"],
    fields := [{ name := "id", type := TypeRef.nonNull (TypeRef.named "ID") }, { name := "director", type := TypeRef.nonNull (TypeRef.named "String") }] }
def tpSchema : Schema := Schema.mk [tpQuery, tpShelf, tpItem, tpBook, tpFilm] (some "Query") none none
def tpShelfParts : Fragment :=
  { name := "ShelfParts", on := "Shelf", sid := 4, sel := [.field none "id" [] 0 [], .field none "items" [] 5 [.spread "ItemParts" []]] }
def tpItemParts : Fragment :=
  { name := "ItemParts", on := "Item", sid := 6, sel := [.field none "id" [] 0 [], .inline (some "Film") [] 7 [.spread "FilmParts" []]] }
def tpFilmParts : Fragment := { name := "FilmParts", on := "Film", sid := 8, sel := [.field none "director" [] 0 []] }
def tpOp : Operation :=
  { kind := .query, name := some "GetLibrary", sid := 1,
    sel := [.field none "featured" [] 2 [.spread "ItemParts" []], .field none "shelf" [] 3 [.spread "ShelfParts" []]] }
def tpEnv : Env := { schema := tpSchema, frags := [tpShelfParts, tpItemParts, tpFilmParts] }

def tpSummary : Except GenErr (Doc × St) → Option (List String × List String × List String × Bool)
  | .ok (d, st) => some (d.frags.map (·.name), st.mixins, st.unpacked, droppedSpread tpEnv.frags tpOp st.unpacked (relatedOf tpEnv 20 st))
  | .error _ => none

set_option maxRecDepth 100000 in
/-- the generator registers `ShelfParts` (inherited) and `ItemParts` (unpacked) only; all three fragments are sent; the
    input is OUTSIDE the `droppedSpread` trigger: the hypotheses of `closure_walks_through_registered` hold with
    `m = ShelfParts`, `u = ItemParts ∈ unpacked`, and its conclusion is what puts `FilmParts` into the document -/
example : tpSummary (addOperation tpEnv 20 tpOp []) = some (["FilmParts", "ItemParts", "ShelfParts"], ["ShelfParts"], ["ItemParts"], false) := by rfl

example : Reach tpEnv.frags tpShelfParts.sel "ItemParts" := ⟨"ItemParts", by decide, .refl⟩

/-- a safe text with quotes, `#`, `=`, backslash escapes and a blank line -/
example : trigger "query Q {\n  a: echo(s: \"x # y = \\\"z\\\" \\\\ \\t\")\n\n}".toList = none
    ∧ 2 ≤ (splitlines "query Q {\n  a: echo(s: \"x # y = \\\"z\\\" \\\\ \\t\")\n\n}".toList).length := by
  constructor <;> decide

/-- the hypotheses of `embed_described` on a text with both kinds of damage -/
example : hasTQ wEscN = false ∧ hasQuote wEscN = false ∧ splitlines wEscN ≠ [] := by
  refine ⟨by decide, by decide, by decide⟩

/-- the four text triggers on the findings' witnesses -/
example : trigger "echo(s: \"it's\")".toList = some .quote := by decide
example : trigger "echo(s: \"a\\nb\")".toList = some .escN := by decide
example : trigger "echo(s: \"\"\"b\"\"\")".toList = some .blockString := by decide
example : trigger ['a', Char.ofNat 0x2028, 'b'] = some .lineSep := by decide

end Ariadne.C02
