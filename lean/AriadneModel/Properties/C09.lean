/-
  C09 — Pruning unused inputs and enums never removes something needed.

  Statements + final proofs; the model is Model/Prune.lean, the DFS lemmas are Proofs/Prune.lean.
  Quantification: every table of input types (any dependency graph: chains, diamonds, cycles,
  self-loops, dangling references, duplicate names — no size bound), every list of enums, every
  list of operations (each with its variable inputs / variable enums / result enums), fragments
  module written or not, and the four combinations of `include_all_inputs` / `include_all_enums`.

  The property is TRUE of the default configuration (`C09_default`); it is FALSE when
  `enable_custom_operations = true` (finding C09-F1: the custom_* modules import input/enum classes
  that nothing reports to the pruning) — `C09_full_false`, `C09_partial`.

  Document side (last section; model Model/PruneDoc.lean, lemmas Proofs/PruneDoc.lean): the
  `add_operation` loop of `main.client` with the ONE shared `ArgumentsGenerator` (variable types as
  type-node trees: any nesting of list / non-null wrappers; `ParsingError` for unknown / object types),
  `_generate_fragments` (early return when every fragment definition was unpacked by an operation;
  `exclude_names`; the set `_fragments_names` enumerated in any order) and then the steps above.
  `generateDoc` is proved to be `Prune.generate ∘ toInput` (`generateDoc_ok_iff`, `doc_error_iff`), so
  the roots and the enum lists are no longer inputs: `doc_inputs_is_closure`, `doc_enums_is_closure`,
  `doc_fragments_written_iff`, `doc_total`, `doc_error_flag_independent`, `doc_set_order_irrelevant`,
  `C09_doc`, `C09_doc_closed`; `order_matters_add_operation` is the counter-model for reading the arguments generator
  before `add_method`.

  Still parameters (component outputs, compared with the real code by harness/c09.py on every run, the
  walk that produces them is Model/ResultTypes.lean of C01/C08): per operation / per fragment definition
  `ResultTypesGenerator.get_used_enums()` and `get_unpacked_fragments()`; per input type the classified
  named type of every field (the wrappers of input FIELDS are stripped by the harness; C06's
  Model/InputDeps.lean models that step).  Outside the model: the emitted text (class bodies are opaque),
  autoflake / isort / black, CPython import, pydantic, plugins, Python's recursion limit.
-/
import AriadneModel.Proofs.Prune
import AriadneModel.Proofs.PruneOrder
import AriadneModel.Proofs.PruneDoc
import Mathlib.Logic.Relation

set_option linter.unusedSimpArgs false
set_option linter.unusedVariables false

namespace Ariadne.C09
open Ariadne.Prune

/-! ### Vocabulary -/

/-- `n` is reachable from the variables of some operation through input fields. -/
def InClosure (x : Input) (n : Name) : Prop :=
  ∃ r ∈ varInputsOf x, Relation.ReflTransGen (fun a b => b ∈ depsOf x.inputs a) r n

/-- `e` is used by a variable, by a retained input class, by a result field or by a fragment. -/
def EnumNeeded (x : Input) (retained : List InputDef) (e : Name) : Prop :=
  e ∈ varEnumsOf x ∨ (∃ c ∈ retained, e ∈ enumRefs c) ∨ e ∈ resultEnumsOf x ∨ e ∈ fragEnumsOf x

/- `varInputsOf`, `varEnumsOf`, `resultEnumsOf`, `fragEnumsOf`, `names`, `enames`, `usedEnumsFinal`,
   `closureNames`, `retainedInputsOf`, `trigCustomOpsPruned` are defined next to the model
   (Model/Prune.lean) so that the compiled driver evaluates the very same trigger. -/

/-- Every name a module of the package refers to is defined where the module looks for it
    (the part of "the package loads" that pruning can affect; default configuration). -/
structure WellScoped (x : Input) (out : Output) : Prop where
  /-- forward references `"B"` between input classes resolve inside input_types.py -/
  inputRefs : ∀ c ∈ out.inputsModule, ∀ n ∈ inputRefs c, n ∈ names out.inputsModule
  /-- enums used by an input class are imported by input_types.py … -/
  inputEnumsImported : ∀ c ∈ out.inputsModule, ∀ e ∈ enumRefs c, e ∈ out.inputsEnumImport
  /-- … and everything input_types.py imports from enums.py is defined there -/
  inputEnumImport : ∀ e ∈ out.inputsEnumImport, e ∈ enames out.enumsModule
  /-- client.py imports exactly the variable types, and they are defined -/
  clientInputsCover : ∀ n ∈ varInputsOf x, n ∈ out.clientInputs
  clientEnumsCover : ∀ e ∈ varEnumsOf x, e ∈ out.clientEnums
  clientInputs : ∀ n ∈ out.clientInputs, n ∈ names out.inputsModule
  clientEnums : ∀ e ∈ out.clientEnums, e ∈ enames out.enumsModule
  /-- result modules and fragments.py import their enums from enums.py -/
  resultEnums : ∀ e ∈ resultEnumsOf x, e ∈ enames out.enumsModule
  fragEnums : ∀ e ∈ fragEnumsOf x, e ∈ enames out.enumsModule

/-- With `enable_custom_operations` the custom_* modules import these names too. -/
def CustomLoads (x : Input) (out : Output) : Prop :=
  x.customOps = true →
    (∀ n ∈ x.customInputs, n ∈ names out.inputsModule) ∧ (∀ e ∈ x.customEnums, e ∈ enames out.enumsModule)

def Loads (x : Input) (out : Output) : Prop := WellScoped x out ∧ CustomLoads x out

/-- The same input with both flags at their default `true`. -/
def unpruned (x : Input) : Input := { x with allInputs := true, allEnums := true }

/-! ### Bridge to Mathlib's closure -/

theorem reach_iff (deps : Name → List Name) (a b : Name) :
    Reach deps a b ↔ Relation.ReflTransGen (fun a b => b ∈ deps a) a b := by
  constructor
  · intro h
    induction h with
    | refl => exact .refl
    | tail _ hc ih => exact .tail ih hc
  · intro h
    induction h with
    | refl => exact .refl _
    | tail _ hc ih => exact .tail ih hc

/-! ### The DFS is the closure (every table, cycles included; the fuel always suffices) -/

theorem dfs_total (tbl : List InputDef) (roots : List Name) : ∃ l, typesNames tbl roots = some l := by
  obtain ⟨l, hl, _⟩ := typesNames_spec tbl roots
  exact ⟨l, hl⟩

/-- One call of `_get_dependencies_of_type(r)` returns exactly the types reachable from `r`. -/
theorem get_dependencies_is_closure (tbl : List InputDef) (r : Name) :
    ∃ l, getDependenciesOfType tbl r = some l ∧
      ∀ n, n ∈ l ↔ Relation.ReflTransGen (fun a b => b ∈ depsOf tbl a) r n := by
  obtain ⟨l, hl, h⟩ := getDependenciesOfType_spec tbl r
  exact ⟨l, hl, fun n => (h n).trans (reach_iff _ _ _)⟩

/-- DESIGN.md Appendix A: `types_names` of `_filter_class_defs` is the closure of the roots. -/
theorem dfs_is_closure (tbl : List InputDef) (roots l : List Name) (n : Name)
    (h : typesNames tbl roots = some l) :
    n ∈ l ↔ ∃ r ∈ roots, Relation.ReflTransGen (fun a b => b ∈ depsOf tbl a) r n := by
  obtain ⟨l', hl', hx⟩ := typesNames_spec tbl roots
  rw [h] at hl'
  cases hl'
  rw [hx n]
  constructor
  · rintro ⟨r, hr, hreach⟩; exact ⟨r, hr, (reach_iff _ _ _).mp hreach⟩
  · rintro ⟨r, hr, hreach⟩; exact ⟨r, hr, (reach_iff _ _ _).mpr hreach⟩

/-! ### Closed form of `generate` (`generate_eq`, `initState_eq`: Proofs/Prune.lean) -/

/-- The retained input classes are either all of them or the name-filter by the closure. -/
def InputsShape (x : Input) (cds : List InputDef) : Prop :=
  (x.allInputs = true ∧ cds = x.inputs) ∨
  (x.allInputs = false ∧ ∃ ns : List Name, (∀ n, n ∈ ns ↔ InClosure x n) ∧
      cds = x.inputs.filter (fun c => decide (c.name ∈ ns)))

theorem filterInputDefs_shape (x : Input) :
    ∃ cds, filterInputDefs x.inputs (if x.allInputs then none else some (varInputsOf x)) = some cds ∧
      InputsShape x cds := by
  cases ha : x.allInputs with
  | true => exact ⟨x.inputs, by simp [filterInputDefs], .inl ⟨ha, rfl⟩⟩
  | false =>
    obtain ⟨ns, hns, hx⟩ := typesNames_spec x.inputs (varInputsOf x)
    refine ⟨x.inputs.filter (fun c => decide (c.name ∈ ns)), by simp [filterInputDefs, hns], .inr ⟨ha, ns, ?_, rfl⟩⟩
    intro n
    rw [hx n]
    unfold InClosure
    constructor
    · rintro ⟨r, hr, hreach⟩; exact ⟨r, hr, (reach_iff _ _ _).mp hreach⟩
    · rintro ⟨r, hr, hreach⟩; exact ⟨r, hr, (reach_iff _ _ _).mpr hreach⟩

/-- The whole of `generate` in one statement. -/
theorem generate_shape (x : Input) :
    ∃ out, generate x = some out ∧ InputsShape x out.inputsModule ∧
      out.enumsModule = filterEnumDefs x.enums
        (if x.allEnums then none else some (usedEnumsFinal x out.inputsModule)) ∧
      out.inputsEnumImport = inputsUsedEnums x.inputs (names out.inputsModule) ∧
      out.clientInputs = varInputsOf x ∧ out.clientEnums = varEnumsOf x := by
  obtain ⟨cds, hc, hs⟩ := filterInputDefs_shape x
  refine ⟨_, by rw [generate_eq, hc]; rfl, hs, rfl, rfl, rfl, rfl⟩

/-- `generate` never runs out of fuel. -/
theorem generate_total (x : Input) : ∃ out, generate x = some out := by
  obtain ⟨out, h, _⟩ := generate_shape x
  exact ⟨out, h⟩

/-! ### Membership lemmas -/

theorem InputsShape.sub {x : Input} {cds : List InputDef} (h : InputsShape x cds) :
    ∀ c ∈ cds, c ∈ x.inputs := by
  rcases h with ⟨_, rfl⟩ | ⟨_, ns, _, rfl⟩
  · exact fun c hc => hc
  · exact fun c hc => (List.mem_filter.mp hc).1

/-- a name-filter keeps every definition that shares its name with a kept one -/
theorem InputsShape.nameClosed {x : Input} {cds : List InputDef} (h : InputsShape x cds) :
    ∀ d ∈ x.inputs, ∀ c ∈ cds, d.name = c.name → d ∈ cds := by
  rcases h with ⟨_, rfl⟩ | ⟨_, ns, _, rfl⟩
  · exact fun d hd _ _ _ => hd
  · intro d hd c hc hn
    have := (List.mem_filter.mp hc).2
    exact List.mem_filter.mpr ⟨hd, by rw [hn]; exact this⟩

theorem mem_inputsEnums {x : Input} {cds : List InputDef} (h : InputsShape x cds) (e : Name) :
    e ∈ inputsUsedEnums x.inputs (names cds) ↔ ∃ c ∈ cds, e ∈ enumRefs c := by
  unfold names
  rw [mem_inputsUsedEnums]
  constructor
  · rintro ⟨c, hc, d, hd, hn, he⟩
    exact ⟨d, h.nameClosed d hd c hc hn, he⟩
  · rintro ⟨c, hc, he⟩
    exact ⟨c, hc, c, h.sub c hc, rfl, he⟩

theorem mem_usedEnumsFinal {x : Input} {cds : List InputDef} (h : InputsShape x cds) (e : Name) :
    e ∈ usedEnumsFinal x cds ↔ EnumNeeded x cds e := by
  unfold usedEnumsFinal EnumNeeded
  simp only [List.mem_append, mem_inputsEnums h]
  constructor
  · rintro (((h1 | h2) | h3) | h4)
    · exact .inr (.inr (.inl h1))
    · exact .inr (.inl h2)
    · exact .inr (.inr (.inr h3))
    · exact .inl h4
  · rintro (h4 | h2 | h1 | h3)
    · exact .inr h4
    · exact .inl (.inl (.inr h2))
    · exact .inl (.inl (.inl h1))
    · exact .inl (.inr h3)

/-! ### The theorems of the property (default configuration, all four flag combinations) -/

/-- Flag `include_all_inputs = true`: nothing is pruned. -/
theorem inputs_unpruned (x : Input) (out : Output) (h : generate x = some out) (hf : x.allInputs = true) :
    out.inputsModule = x.inputs := by
  obtain ⟨out', h', hs, _⟩ := generate_shape x
  rw [h] at h'; cases h'
  rcases hs with ⟨_, e⟩ | ⟨hf', _⟩
  · exact e
  · rw [hf] at hf'; cases hf'

/-- Flag `include_all_enums = true`: nothing is pruned. -/
theorem enums_unpruned (x : Input) (out : Output) (h : generate x = some out) (hf : x.allEnums = true) :
    out.enumsModule = x.enums := by
  obtain ⟨out', h', _, he, _⟩ := generate_shape x
  rw [h] at h'; cases h'
  rw [he, hf]; rfl

/-- `include_all_inputs = false`: input_types.py holds exactly the closure, as an order-preserving
    filter of the unpruned class list. -/
theorem inputs_is_closure (x : Input) (out : Output) (h : generate x = some out) (hf : x.allInputs = false) :
    ∃ p : InputDef → Bool, out.inputsModule = x.inputs.filter p ∧ ∀ c, p c = true ↔ InClosure x c.name := by
  obtain ⟨out', h', hs, _⟩ := generate_shape x
  rw [h] at h'; cases h'
  rcases hs with ⟨hf', _⟩ | ⟨_, ns, hns, e⟩
  · rw [hf] at hf'; cases hf'
  · exact ⟨fun c => decide (c.name ∈ ns), e, fun c => by simp [hns]⟩

/-- `include_all_enums = false`: enums.py holds exactly
    enums(vars) ∪ enums(retained inputs) ∪ enums(results) ∪ enums(fragments), as an order-preserving
    filter of the unpruned class list (whatever `include_all_inputs` is). -/
theorem enums_is_closure (x : Input) (out : Output) (h : generate x = some out) (hf : x.allEnums = false) :
    ∃ q : EnumDef → Bool, out.enumsModule = x.enums.filter q ∧
      ∀ c, q c = true ↔ EnumNeeded x out.inputsModule c.name := by
  obtain ⟨out', h', hs, he, _⟩ := generate_shape x
  rw [h] at h'; cases h'
  refine ⟨fun c => decide (c.name ∈ usedEnumsFinal x out.inputsModule), ?_, fun c => by simp [mem_usedEnumsFinal hs]⟩
  rw [he, hf]; rfl

/-- Nothing of a pruned kind outside the closure. -/
theorem no_extra (x : Input) (out : Output) (h : generate x = some out) :
    (x.allInputs = false → ∀ c ∈ out.inputsModule, InClosure x c.name) ∧
    (x.allEnums = false → ∀ c ∈ out.enumsModule, EnumNeeded x out.inputsModule c.name) := by
  constructor
  · intro hf c hc
    obtain ⟨p, e, hp⟩ := inputs_is_closure x out h hf
    rw [e] at hc
    exact (hp c).mp (List.mem_filter.mp hc).2
  · intro hf c hc
    obtain ⟨q, e, hq⟩ := enums_is_closure x out h hf
    rw [e] at hc
    exact (hq c).mp (List.mem_filter.mp hc).2

/-- Nothing needed is removed — for every flag combination. -/
theorem nothing_needed_removed (x : Input) (out : Output) (h : generate x = some out) :
    (∀ c ∈ x.inputs, InClosure x c.name → c ∈ out.inputsModule) ∧
    (∀ c ∈ x.enums, EnumNeeded x out.inputsModule c.name → c ∈ out.enumsModule) := by
  constructor
  · intro c hc hcl
    cases hf : x.allInputs with
    | true => rw [inputs_unpruned x out h hf]; exact hc
    | false =>
      obtain ⟨p, e, hp⟩ := inputs_is_closure x out h hf
      rw [e]; exact List.mem_filter.mpr ⟨hc, (hp c).mpr hcl⟩
  · intro c hc hn
    cases hf : x.allEnums with
    | true => rw [enums_unpruned x out h hf]; exact hc
    | false =>
      obtain ⟨q, e, hq⟩ := enums_is_closure x out h hf
      rw [e]; exact List.mem_filter.mpr ⟨hc, (hq c).mpr hn⟩

/-- Everything retained is the same `ClassDef` value as in the unpruned package, in the same
    relative order: both pruned modules are `List.filter`s of the unpruned ones. -/
theorem retained_identical (x : Input) (outAll out : Output)
    (hall : generate (unpruned x) = some outAll) (h : generate x = some out) :
    (∃ p, out.inputsModule = outAll.inputsModule.filter p) ∧
    (∃ q, out.enumsModule = outAll.enumsModule.filter q) := by
  have hi : outAll.inputsModule = x.inputs := inputs_unpruned (unpruned x) outAll hall rfl
  have he : outAll.enumsModule = x.enums := enums_unpruned (unpruned x) outAll hall rfl
  rw [hi, he]
  constructor
  · cases hf : x.allInputs with
    | true =>
      exact ⟨fun _ => true, by
        rw [inputs_unpruned x out h hf]; exact (List.filter_eq_self.mpr (fun _ _ => rfl)).symm⟩
    | false => obtain ⟨p, e, _⟩ := inputs_is_closure x out h hf; exact ⟨p, e⟩
  · cases hf : x.allEnums with
    | true =>
      exact ⟨fun _ => true, by
        rw [enums_unpruned x out h hf]; exact (List.filter_eq_self.mpr (fun _ _ => rfl)).symm⟩
    | false => obtain ⟨q, e, _⟩ := enums_is_closure x out h hf; exact ⟨q, e⟩

theorem retained_sublist (x : Input) (outAll out : Output)
    (hall : generate (unpruned x) = some outAll) (h : generate x = some out) :
    out.inputsModule.Sublist outAll.inputsModule ∧ out.enumsModule.Sublist outAll.enumsModule := by
  obtain ⟨⟨p, hp⟩, ⟨q, hq⟩⟩ := retained_identical x outAll out hall h
  rw [hp, hq]
  exact ⟨List.filter_sublist, List.filter_sublist⟩

/-- The schema/operation side conditions under which the UNPRUNED package is well-scoped. -/
structure Resolvable (x : Input) : Prop where
  inputRefs : ∀ d ∈ x.inputs, ∀ n ∈ inputRefs d, n ∈ names x.inputs
  enumRefs : ∀ d ∈ x.inputs, ∀ e ∈ enumRefs d, e ∈ enames x.enums
  roots : ∀ r ∈ varInputsOf x, r ∈ names x.inputs
  varEnums : ∀ e ∈ varEnumsOf x, e ∈ enames x.enums
  resultEnums : ∀ e ∈ resultEnumsOf x, e ∈ enames x.enums
  fragEnums : ∀ e ∈ fragEnumsOf x, e ∈ enames x.enums

theorem wellScoped_unpruned_resolvable (x : Input) (outAll : Output)
    (hall : generate (unpruned x) = some outAll) (hw : WellScoped x outAll) : Resolvable x := by
  obtain ⟨out', h', hs, he, himp, hci, hce⟩ := generate_shape (unpruned x)
  rw [hall] at h'; cases h'
  have hi : outAll.inputsModule = x.inputs := inputs_unpruned (unpruned x) outAll hall rfl
  have hen : outAll.enumsModule = x.enums := enums_unpruned (unpruned x) outAll hall rfl
  refine ⟨?_, ?_, ?_, ?_, ?_, ?_⟩
  · intro d hd n hn; have := hw.inputRefs d (by rw [hi]; exact hd) n hn; rwa [hi] at this
  · intro d hd e hdE
    have h1 := hw.inputEnumsImported d (by rw [hi]; exact hd) e hdE
    have h2 := hw.inputEnumImport e h1
    rwa [hen] at h2
  · intro r hr; have := hw.clientInputs r (hw.clientInputsCover r hr); rwa [hi] at this
  · intro e h1; have := hw.clientEnums e (hw.clientEnumsCover e h1); rwa [hen] at this
  · intro e h1; have := hw.resultEnums e h1; rwa [hen] at this
  · intro e h1; have := hw.fragEnums e h1; rwa [hen] at this

/-- every needed, resolvable enum name is defined in the written enums module -/
theorem needed_enum_defined (x : Input) (out : Output) (h : generate x = some out) (e : Name)
    (hres : e ∈ enames x.enums) (hn : EnumNeeded x out.inputsModule e) : e ∈ enames out.enumsModule := by
  obtain ⟨c, hc, rfl⟩ := List.mem_map.mp hres
  exact List.mem_map.mpr ⟨c, (nothing_needed_removed x out h).2 c hc hn, rfl⟩

theorem resolvable_wellScoped (x : Input) (out : Output) (hr : Resolvable x) (h : generate x = some out) :
    WellScoped x out := by
  obtain ⟨out', h', hs, he, himp, hci, hce⟩ := generate_shape x
  rw [h] at h'; cases h'
  have hsub := hs.sub
  have inClosure_defined : ∀ n, n ∈ names x.inputs → (x.allInputs = false → InClosure x n) →
      n ∈ names out.inputsModule := by
    intro n hn hcl
    obtain ⟨c, hc, rfl⟩ := List.mem_map.mp hn
    cases hf : x.allInputs with
    | true => rw [inputs_unpruned x out h hf]; exact hn
    | false => exact List.mem_map.mpr ⟨c, (nothing_needed_removed x out h).1 c hc (hcl hf), rfl⟩
  refine ⟨?_, ?_, ?_, ?_, ?_, ?_, ?_, ?_, ?_⟩
  · -- forward references between retained input classes
    intro c hc n hn
    apply inClosure_defined n (hr.inputRefs c (hsub c hc) n hn)
    intro hf
    obtain ⟨r, hroot, hreach⟩ := (no_extra x out h).1 hf c hc
    exact ⟨r, hroot, .tail hreach ((mem_depsOf _ _ _).mpr ⟨c, hsub c hc, rfl, hn⟩)⟩
  · intro c hc e hce'
    rw [himp]; exact (mem_inputsEnums hs e).mpr ⟨c, hc, hce'⟩
  · intro e hi
    rw [himp] at hi
    obtain ⟨c, hc, hce'⟩ := (mem_inputsEnums hs e).mp hi
    exact needed_enum_defined x out h e (hr.enumRefs c (hsub c hc) e hce') (.inr (.inl ⟨c, hc, hce'⟩))
  · intro n hn; rw [hci]; exact hn
  · intro e hn; rw [hce]; exact hn
  · intro n hn
    rw [hci] at hn
    exact inClosure_defined n (hr.roots n hn) (fun _ => ⟨n, hn, .refl⟩)
  · intro e hn
    rw [hce] at hn
    exact needed_enum_defined x out h e (hr.varEnums e hn) (.inl hn)
  · intro e hn
    exact needed_enum_defined x out h e (hr.resultEnums e hn) (.inr (.inr (.inl hn)))
  · intro e hn
    exact needed_enum_defined x out h e (hr.fragEnums e hn) (.inr (.inr (.inr hn)))

/-- If the unpruned package is well-scoped, so is the pruned one (all four flag combinations):
    every name referenced by a retained class, by the client, by a result module or by the fragments
    module is still defined. -/
theorem pruned_wellscoped (x : Input) (outAll out : Output)
    (hall : generate (unpruned x) = some outAll) (hw : WellScoped x outAll) (h : generate x = some out) :
    WellScoped x out :=
  resolvable_wellScoped x out (wellScoped_unpruned_resolvable x outAll hall hw) h

/-! ### The property as a whole -/

structure Holds (x : Input) (outAll out : Output) : Prop where
  loads : Loads x out
  inputsIdentical : ∃ p, out.inputsModule = outAll.inputsModule.filter p
  enumsIdentical : ∃ q, out.enumsModule = outAll.enumsModule.filter q
  inputsKept : ∀ c ∈ outAll.inputsModule, InClosure x c.name → c ∈ out.inputsModule
  enumsKept : ∀ c ∈ outAll.enumsModule, EnumNeeded x out.inputsModule c.name → c ∈ out.enumsModule
  noExtraInputs : x.allInputs = false → ∀ c ∈ out.inputsModule, InClosure x c.name
  noExtraEnums : x.allEnums = false → ∀ c ∈ out.enumsModule, EnumNeeded x out.inputsModule c.name

/-- C09 at full strength: whenever the unpruned package loads, the pruned one is produced, loads,
    holds the closure and nothing else of a pruned kind, and what it holds is identical. -/
def C09_full : Prop :=
  ∀ (x : Input) (outAll : Output), generate (unpruned x) = some outAll → Loads x outAll →
    ∃ out, generate x = some out ∧ Holds x outAll out

/-- Everything except the custom-operations imports. -/
theorem holds_but_custom (x : Input) (outAll : Output) (hall : generate (unpruned x) = some outAll)
    (hw : WellScoped x outAll) :
    ∃ out, generate x = some out ∧ WellScoped x out ∧
      (CustomLoads x out → Holds x outAll out) := by
  obtain ⟨out, h⟩ := generate_total x
  have hi : outAll.inputsModule = x.inputs := inputs_unpruned (unpruned x) outAll hall rfl
  have he : outAll.enumsModule = x.enums := enums_unpruned (unpruned x) outAll hall rfl
  have hws := pruned_wellscoped x outAll out hall hw h
  refine ⟨out, h, hws, fun hc => ⟨⟨hws, hc⟩, (retained_identical x outAll out hall h).1,
    (retained_identical x outAll out hall h).2, ?_, ?_, (no_extra x out h).1, (no_extra x out h).2⟩⟩
  · rw [hi]; exact (nothing_needed_removed x out h).1
  · rw [he]; exact (nothing_needed_removed x out h).2

/-! #### Finding C09-F1: `enable_custom_operations` with pruning -/

def Supported_09 (x : Input) : Prop := ¬ (trigCustomOpsPruned x = true)

instance (x : Input) : Decidable (Supported_09 x) := by unfold Supported_09; infer_instance

theorem mem_closureNames (x : Input) (n : Name) : n ∈ closureNames x ↔ InClosure x n := by
  obtain ⟨l, hl, hx⟩ := typesNames_spec x.inputs (varInputsOf x)
  unfold closureNames InClosure
  rw [hl]
  simp only [Option.getD_some, hx n]
  constructor
  · rintro ⟨r, hr, hreach⟩; exact ⟨r, hr, (reach_iff _ _ _).mp hreach⟩
  · rintro ⟨r, hr, hreach⟩; exact ⟨r, hr, (reach_iff _ _ _).mpr hreach⟩

theorem retainedInputsOf_shape (x : Input) : InputsShape x (retainedInputsOf x) := by
  unfold retainedInputsOf
  cases hf : x.allInputs with
  | true => exact .inl ⟨hf, by simp⟩
  | false => exact .inr ⟨hf, closureNames x, mem_closureNames x, by simp⟩

theorem retainedInputsOf_eq (x : Input) (out : Output) (h : generate x = some out) :
    out.inputsModule = retainedInputsOf x := by
  unfold retainedInputsOf
  cases hf : x.allInputs with
  | true => simpa using inputs_unpruned x out h hf
  | false =>
    obtain ⟨p, e, hp⟩ := inputs_is_closure x out h hf
    rw [e]
    simp only [Bool.false_eq_true, ↓reduceIte]
    apply List.filter_congr
    intro c _
    by_cases hc : InClosure x c.name
    · rw [(hp c).mpr hc]; simp [mem_closureNames, hc]
    · have : p c = false := by
        cases hpc : p c with
        | false => rfl
        | true => exact absurd ((hp c).mp hpc) hc
      rw [this]; simp [mem_closureNames, hc]

/-- The trigger in the vocabulary of the property. -/
theorem trig_iff (x : Input) :
    trigCustomOpsPruned x = true ↔
      x.customOps = true ∧
        ((x.allInputs = false ∧ ∃ n ∈ x.customInputs, ¬ InClosure x n) ∨
         (x.allEnums = false ∧ ∃ e ∈ x.customEnums, ¬ EnumNeeded x (retainedInputsOf x) e)) := by
  simp [trigCustomOpsPruned, mem_closureNames, mem_usedEnumsFinal (retainedInputsOf_shape x)]

/-- Outside the trigger the custom modules' imports resolve in the pruned package whenever they
    resolve in the unpruned one. -/
theorem custom_loads_of_supported (x : Input) (outAll out : Output)
    (hall : generate (unpruned x) = some outAll) (hc : CustomLoads x outAll)
    (h : generate x = some out) (hs : Supported_09 x) : CustomLoads x out := by
  intro hco
  have hi : outAll.inputsModule = x.inputs := inputs_unpruned (unpruned x) outAll hall rfl
  have he : outAll.enumsModule = x.enums := enums_unpruned (unpruned x) outAll hall rfl
  obtain ⟨hci, hce⟩ := hc hco
  rw [hi] at hci
  rw [he] at hce
  have hnt : ¬ _ := fun ht => hs ((trig_iff x).mpr ht)
  constructor
  · intro n hn
    obtain ⟨c, hcm, rfl⟩ := List.mem_map.mp (hci n hn)
    cases hf : x.allInputs with
    | true => rw [inputs_unpruned x out h hf]; exact hci _ hn
    | false =>
      have hin : InClosure x c.name := by
        apply Classical.byContradiction
        intro hnc
        exact hnt ⟨hco, .inl ⟨hf, c.name, hn, hnc⟩⟩
      exact List.mem_map.mpr ⟨c, (nothing_needed_removed x out h).1 c hcm hin, rfl⟩
  · intro e hn
    obtain ⟨c, hcm, rfl⟩ := List.mem_map.mp (hce e hn)
    cases hf : x.allEnums with
    | true => rw [enums_unpruned x out h hf]; exact hce _ hn
    | false =>
      have hin : EnumNeeded x out.inputsModule c.name := by
        rw [retainedInputsOf_eq x out h]
        apply Classical.byContradiction
        intro hnc
        exact hnt ⟨hco, .inr ⟨hf, c.name, hn, hnc⟩⟩
      exact List.mem_map.mpr ⟨c, (nothing_needed_removed x out h).2 c hcm hin, rfl⟩

/-- C09 outside the trigger of C09-F1 (in particular for the default configuration). -/
theorem C09_partial (x : Input) (outAll : Output) (hall : generate (unpruned x) = some outAll)
    (hl : Loads x outAll) (hs : Supported_09 x) :
    ∃ out, generate x = some out ∧ Holds x outAll out := by
  obtain ⟨out, h, _, hh⟩ := holds_but_custom x outAll hall hl.1
  exact ⟨out, h, hh (custom_loads_of_supported x outAll out hall hl.2 h hs)⟩

/-- The default configuration (`enable_custom_operations = false`) is never in the trigger region:
    there the property holds at full strength for all four flag combinations. -/
theorem C09_default (x : Input) (outAll : Output) (hc : x.customOps = false)
    (hall : generate (unpruned x) = some outAll) (hw : WellScoped x outAll) :
    ∃ out, generate x = some out ∧ Holds x outAll out :=
  C09_partial x outAll hall ⟨hw, fun h => by rw [hc] at h; cases h⟩ (by simp [Supported_09, trigCustomOpsPruned, hc])

/-- Witness of C09-F1: `type Mutation { m(u: U): Int }`, `input U { x: Int }`, no operation uses `U`,
    `enable_custom_operations = true`, `include_all_inputs = false`. -/
def witnessF1 : Input :=
  { inputs := [⟨"U", [], ""⟩], enums := [], ops := [], fragEnums := none,
    allInputs := false, allEnums := true, customOps := true, customInputs := ["U"], customEnums := [] }

def witnessF1All : Output := ⟨[⟨"U", [], ""⟩], [], [], [], []⟩

theorem witnessF1_unpruned : generate (unpruned witnessF1) = some witnessF1All := by decide

theorem witnessF1_pruned : generate witnessF1 = some ⟨[], [], [], [], []⟩ := by decide

theorem witnessF1_in_trigger : trigCustomOpsPruned witnessF1 = true := by decide

theorem C09_full_false : ¬ C09_full := by
  intro hfull
  have hl : Loads witnessF1 witnessF1All := by
    refine ⟨⟨?_, ?_, ?_, ?_, ?_, ?_, ?_, ?_, ?_⟩, ?_⟩ <;>
      simp [witnessF1, witnessF1All, varInputsOf, varEnumsOf, resultEnumsOf, fragEnumsOf, names, enames,
        CustomLoads, Prune.inputRefs, Prune.enumRefs]
  obtain ⟨out, h, hh⟩ := hfull witnessF1 witnessF1All witnessF1_unpruned hl
  rw [witnessF1_pruned] at h
  cases h
  have := (hh.loads.2 rfl).1 "U" (by simp [witnessF1])
  simp [names] at this

/-- Inside the trigger region the custom imports break — the failing region is exactly the trigger. -/
theorem custom_fails_iff_trigger (x : Input) (outAll out : Output)
    (hall : generate (unpruned x) = some outAll) (hc : CustomLoads x outAll) (h : generate x = some out) :
    ¬ CustomLoads x out ↔ trigCustomOpsPruned x = true := by
  constructor
  · intro hn
    apply Classical.byContradiction
    intro ht
    exact hn (custom_loads_of_supported x outAll out hall hc h ht)
  · intro ht hcl
    obtain ⟨hco, hcase⟩ := (trig_iff x).mp ht
    obtain ⟨hci, hce⟩ := hcl hco
    rcases hcase with ⟨hf, n, hn, hnc⟩ | ⟨hf, e, he, hne⟩
    · obtain ⟨c, hcm, rfl⟩ := List.mem_map.mp (hci n hn)
      exact hnc ((no_extra x out h).1 hf c hcm)
    · obtain ⟨c, hcm, rfl⟩ := List.mem_map.mp (hce e he)
      rw [← retainedInputsOf_eq x out h] at hne
      exact hne ((no_extra x out h).2 hf c hcm)

/-! ### Why the order of `PackageGenerator.generate` matters -/

/-- A variant that writes enums.py before the client (and so before the arguments generator's enums
    reach `_used_enums`). -/
def enumsBeforeClient : List Step := [.inputs, .results, .fragments, .enums, .client]

/-- A variant that writes enums.py before input_types.py. -/
def enumsBeforeInputs : List Step := [.enums, .inputs, .results, .fragments, .client]

/-- `enum E {A}  type Query { f(e: E): Int }   query q($e: E) { f(e: $e) }`, both flags false. -/
def orderWitness : Input :=
  { inputs := [], enums := [⟨"E", ""⟩], ops := [⟨[], ["E"], []⟩], fragEnums := none,
    allInputs := false, allEnums := false }

/-- `enum E {A}  input I { e: E }  type Query { f(i: I): Int }   query q($i: I) { f(i: $i) }`. -/
def orderWitness2 : Input :=
  { inputs := [⟨"I", [.enum "E"], ""⟩], enums := [⟨"E", ""⟩], ops := [⟨["I"], [], []⟩], fragEnums := none,
    allInputs := false, allEnums := false }

/-- With the real order the variable's enum is kept … -/
theorem order_real_keeps : generate orderWitness = some ⟨[], [⟨"E", ""⟩], [], [], ["E"]⟩ := by decide

/-- … with enums written before the client it is pruned although the client imports it:
    `enums_is_closure` (and well-scopedness) fail for that variant. -/
theorem order_matters_client :
    ∃ out, generateWith enumsBeforeClient orderWitness = some out ∧
      "E" ∈ varEnumsOf orderWitness ∧ "E" ∈ out.clientEnums ∧ "E" ∉ enames out.enumsModule := by
  refine ⟨⟨[], [], [], [], ["E"]⟩, by decide, by decide, by decide, by decide⟩

/-- … and with enums written before the inputs, the enum of a retained input class is pruned. -/
theorem order_matters_inputs :
    ∃ out, generateWith enumsBeforeInputs orderWitness2 = some out ∧
      (∃ c ∈ out.inputsModule, "E" ∈ enumRefs c) ∧ "E" ∉ enames out.enumsModule := by
  refine ⟨⟨[⟨"I", [.enum "E"], ""⟩], [], ["E"], ["I"], []⟩, by decide, ⟨⟨"I", [.enum "E"], ""⟩, by decide, by decide⟩, by decide⟩

/-- Any order of `generate` in which input_types.py, fragments.py and client.py are produced (in any
    order, even repeatedly) before enums.py is written last gives the same two pruned modules and the
    same imports as the real order: the only order constraint is "enums last". -/
theorem order_sufficient (x : Input) (pre : List Step) (out : Output)
    (hne : Step.enums ∉ pre) (hi : Step.inputs ∈ pre) (hf : Step.fragments ∈ pre) (hc : Step.client ∈ pre)
    (h : generateWith (pre ++ [Step.enums]) x = some out) : generate x = some out := by
  unfold generateWith runSteps at h
  rw [List.foldlM_append] at h
  cases hp : List.foldlM (step x) (initState x) pre with
  | none => simp [hp] at h
  | some st' =>
    have e := preEffect x pre (initState x) st' hne hp
    rw [initState_eq] at e
    obtain ⟨cds, hcds, hshape⟩ := filterInputDefs_shape x
    have hcd : cdsOf x { usedEnums := resultEnumsOf x, argInputs := varInputsOf x, argEnums := varEnumsOf x } = some cds := by
      simp [cdsOf, hcds]
    obtain ⟨i1, i2⟩ := e.inputsDone hi
    obtain ⟨c1, c2⟩ := e.clientDone hc
    rw [hcd] at i1
    simp only [contrib, hcd] at i2
    simp only [hp, List.foldlM_cons, List.foldlM_nil, step] at h
    simp [finish, i1, e.enumsModule] at h
    rw [generate_eq, hcds]
    simp only [Option.map_some, Option.some.injEq]
    rw [← h]
    simp only [i2, c1, c2, Output.mk.injEq, true_and, and_true]
    cases hae : x.allEnums with
    | true => simp
    | false =>
      simp only [Bool.false_eq_true, ↓reduceIte, filterEnumDefs]
      apply List.filter_congr
      intro c _
      have : c.name ∈ usedEnumsFinal x cds ↔ c.name ∈ st'.usedEnums := by
        rw [e.usedEnums]
        simp only [usedEnumsFinal, List.mem_append, List.mem_flatMap]
        constructor
        · rintro (((h1 | h2) | h3) | h4)
          · exact .inl h1
          · exact .inr ⟨.inputs, hi, by simpa [contrib, hcd] using h2⟩
          · exact .inr ⟨.fragments, hf, by simpa [contrib] using h3⟩
          · exact .inr ⟨.client, hc, by simpa [contrib] using h4⟩
        · rintro (h1 | ⟨s, hs, hm⟩)
          · exact .inl (.inl (.inl h1))
          · cases s with
            | inputs => exact .inl (.inl (.inr (by simpa [contrib, hcd] using hm)))
            | results => simp [contrib] at hm
            | fragments => exact .inl (.inr (by simpa [contrib] using hm))
            | client => exact .inr (by simpa [contrib] using hm)
            | enums => simp [contrib] at hm
      simp [this]

/-! ### Non-vacuity -/

/-- A cycle A → B → A with a self-loop on S, an unused input U holding the only use of enum X,
    enums used only by a variable (V), a nested result (R), a fragment (F), an input field (C, reached
    through the cycle), and an unused enum (Z). -/
def exInput : Input :=
  { inputs := [⟨"A", [.input "B", .enum "C"], "a"⟩, ⟨"U", [.enum "X"], "u"⟩, ⟨"B", [.input "A", .scalar "Date"], "b"⟩,
               ⟨"S", [.input "S"], "s"⟩],
    enums := [⟨"C", ""⟩, ⟨"X", ""⟩, ⟨"V", ""⟩, ⟨"R", ""⟩, ⟨"F", ""⟩, ⟨"Z", ""⟩],
    ops := [⟨["B"], ["V"], ["R"]⟩, ⟨[], [], []⟩], fragEnums := some ["F"],
    allInputs := false, allEnums := false }

example : generate exInput =
    some ⟨[⟨"A", [.input "B", .enum "C"], "a"⟩, ⟨"B", [.input "A", .scalar "Date"], "b"⟩],
          [⟨"C", ""⟩, ⟨"V", ""⟩, ⟨"R", ""⟩, ⟨"F", ""⟩], ["C"], ["B"], ["V"]⟩ := by decide

example : (generate (unpruned exInput)).map (fun o => (names o.inputsModule, enames o.enumsModule)) =
    some (["A", "U", "B", "S"], ["C", "X", "V", "R", "F", "Z"]) := by decide

example : (generate { exInput with allInputs := true }).map (fun o => enames o.enumsModule) =
    some ["C", "X", "V", "R", "F"] := by decide

example : Supported_09 exInput := by decide

example : getDependenciesOfType exInput.inputs "A" = some ["A", "B"] := by decide

/-- `order_sufficient` is not vacuous: a permuted order with enums last, on the example. -/
example : generateWith ([.client, .fragments, .inputs, .results] ++ [.enums]) exInput = generate exInput := by decide

/-! ### The document side: from operations and fragments to roots and used enums (Model/PruneDoc.lean)

  `generateDoc` runs the `add_operation` loop of `main.client` (result-types generator, then the shared
  arguments generator over variable types with any nesting of list / non-null wrappers), decides in
  `_generate_fragments` whether fragments.py is written and which fragment definitions it holds
  (those no OPERATION unpacked), and then the steps of `PackageGenerator.generate`.  It is proved to be
  `Prune.generate` of the closed-form abstraction `toInput`, so everything above transfers; the
  statements below are in the vocabulary of the document. -/

section Doc
open Ariadne.PruneDoc

/-- `r` is the named type of some operation variable and an input object of the schema. -/
def DocRoot (x : DocInput) (r : Name) : Prop :=
  ∃ op ∈ x.ops, ∃ t ∈ op.vars, t.base = r ∧ kindOf x r = .input

def DocVarEnum (x : DocInput) (e : Name) : Prop :=
  ∃ op ∈ x.ops, ∃ t ∈ op.vars, t.base = e ∧ kindOf x e = .enum

/-- `e` is used by a fragment definition that fragments.py holds: one that no operation unpacked. -/
def DocFragEnum (x : DocInput) (e : Name) : Prop :=
  ∃ f ∈ x.frags, (∀ op ∈ x.ops, f.name ∉ op.unpacked) ∧ e ∈ f.enums

def DocInClosure (x : DocInput) (n : Name) : Prop :=
  ∃ r, DocRoot x r ∧ Relation.ReflTransGen (fun a b => b ∈ depsOf x.inputs a) r n

def DocEnumNeeded (x : DocInput) (retained : List InputDef) (e : Name) : Prop :=
  DocVarEnum x e ∨ (∃ c ∈ retained, e ∈ enumRefs c) ∨ (∃ op ∈ x.ops, e ∈ op.resultEnums) ∨ DocFragEnum x e

/-- Every variable is typed by an input object, an enum or a scalar of the schema (what graphql-core's
    validation guarantees for the operations `main.client` accepts). -/
def VarsTyped (x : DocInput) : Prop :=
  ∀ op ∈ x.ops, ∀ t ∈ op.vars,
    kindOf x t.base = .input ∨ kindOf x t.base = .enum ∨ kindOf x t.base = .scalar

/-- List and non-null wrappers of a variable type are transparent for the bookkeeping, at any depth. -/
theorem variable_wrappers_transparent (kinds : Name → Kind) (st : ArgSt) (t : TypeNode) :
    parseTypeNode kinds st t = parseNamed kinds st t.base :=
  parseTypeNode_base kinds st t

/-- What one `ArgumentsGenerator.generate` call records: exactly the named types of the variables that
    are input objects / enums, or the first `ParsingError`. -/
theorem variables_use_exact (kinds : Name → Kind) (vars : List TypeNode) (a : ArgSt) (h : varsUse kinds vars = .ok a) :
    (∀ n, n ∈ a.usedInputs ↔ ∃ t ∈ vars, t.base = n ∧ kinds n = .input) ∧
    (∀ n, n ∈ a.usedEnums ↔ ∃ t ∈ vars, t.base = n ∧ kinds n = .enum) := by
  rw [varsUse_eq] at h
  cases hb : firstBad kinds vars with
  | some e => simp [hb] at h
  | none =>
    simp only [hb, Except.ok.injEq] at h
    subst h
    exact ⟨mem_usesInputs kinds vars, mem_usesEnums kinds vars⟩

theorem mem_varInputsOf_doc (x : DocInput) (i : Input) (h : toInput x = .ok i) (r : Name) :
    r ∈ varInputsOf i ↔ DocRoot x r := by
  obtain ⟨_, _, _, _, _, _, _, _, hops⟩ := toInput_fields x i h
  unfold varInputsOf DocRoot
  rw [hops]
  simp only [List.mem_flatMap, List.mem_map]
  constructor
  · rintro ⟨o, ⟨op, hop, rfl⟩, hr⟩
    obtain ⟨t, ht, hb, hk⟩ := (mem_usesInputs _ _ _).mp hr
    exact ⟨op, hop, t, ht, hb, hk⟩
  · rintro ⟨op, hop, t, ht, hb, hk⟩
    exact ⟨_, ⟨op, hop, rfl⟩, (mem_usesInputs _ _ _).mpr ⟨t, ht, hb, hk⟩⟩

theorem mem_varEnumsOf_doc (x : DocInput) (i : Input) (h : toInput x = .ok i) (e : Name) :
    e ∈ varEnumsOf i ↔ DocVarEnum x e := by
  obtain ⟨_, _, _, _, _, _, _, _, hops⟩ := toInput_fields x i h
  unfold varEnumsOf DocVarEnum
  rw [hops]
  simp only [List.mem_flatMap, List.mem_map]
  constructor
  · rintro ⟨o, ⟨op, hop, rfl⟩, hr⟩
    obtain ⟨t, ht, hb, hk⟩ := (mem_usesEnums _ _ _).mp hr
    exact ⟨op, hop, t, ht, hb, hk⟩
  · rintro ⟨op, hop, t, ht, hb, hk⟩
    exact ⟨_, ⟨op, hop, rfl⟩, (mem_usesEnums _ _ _).mpr ⟨t, ht, hb, hk⟩⟩

theorem mem_resultEnumsOf_doc (x : DocInput) (i : Input) (h : toInput x = .ok i) (e : Name) :
    e ∈ resultEnumsOf i ↔ ∃ op ∈ x.ops, e ∈ op.resultEnums := by
  obtain ⟨_, _, _, _, _, _, _, _, hops⟩ := toInput_fields x i h
  unfold resultEnumsOf
  rw [hops]
  simp only [List.mem_flatMap, List.mem_map]
  constructor
  · rintro ⟨o, ⟨op, hop, rfl⟩, hr⟩; exact ⟨op, hop, hr⟩
  · rintro ⟨op, hop, hr⟩; exact ⟨_, ⟨op, hop, rfl⟩, hr⟩

/-- fragments.py is written exactly when some fragment definition is left that no operation unpacked … -/
theorem doc_fragments_written_iff (x : DocInput) (i : Input) (h : toInput x = .ok i) :
    i.fragEnums.isSome = true ↔ ∃ f ∈ x.frags, ∀ op ∈ x.ops, f.name ∉ op.unpacked := by
  obtain ⟨_, _, _, _, _, _, _, hfr, _⟩ := toInput_fields x i h
  rw [hfr]
  unfold fragmentsEnums
  rw [fragmentsEnumsWith_isSome]
  constructor
  · rintro ⟨f, hf, hn⟩; exact ⟨f, hf, (not_mem_unpackedOf x f.name).mp hn⟩
  · rintro ⟨f, hf, hn⟩; exact ⟨f, hf, (not_mem_unpackedOf x f.name).mpr hn⟩

/-- … and the enums it reports are exactly those of the definitions it holds. -/
theorem mem_fragEnumsOf_doc (x : DocInput) (i : Input) (h : toInput x = .ok i) (e : Name) :
    e ∈ fragEnumsOf i ↔ DocFragEnum x e := by
  obtain ⟨_, _, _, _, _, _, _, hfr, _⟩ := toInput_fields x i h
  unfold fragEnumsOf DocFragEnum
  rw [hfr]
  unfold fragmentsEnums
  rw [mem_fragmentsEnumsWith id (fun l => List.Perm.refl l)]
  constructor
  · rintro ⟨f, hf, hn, he⟩; exact ⟨f, hf, (not_mem_unpackedOf x f.name).mp hn, he⟩
  · rintro ⟨f, hf, hn, he⟩; exact ⟨f, hf, (not_mem_unpackedOf x f.name).mpr hn, he⟩

/-- The vocabulary of the model is the vocabulary of the document. -/
theorem doc_vocabulary (x : DocInput) (i : Input) (h : toInput x = .ok i) :
    (∀ n, InClosure i n ↔ DocInClosure x n) ∧
    (∀ retained e, EnumNeeded i retained e ↔ DocEnumNeeded x retained e) := by
  obtain ⟨hin, _⟩ := toInput_fields x i h
  constructor
  · intro n
    unfold InClosure DocInClosure
    rw [hin]
    constructor
    · rintro ⟨r, hr, hreach⟩; exact ⟨r, (mem_varInputsOf_doc x i h r).mp hr, hreach⟩
    · rintro ⟨r, hr, hreach⟩; exact ⟨r, (mem_varInputsOf_doc x i h r).mpr hr, hreach⟩
  · intro retained e
    unfold EnumNeeded DocEnumNeeded
    rw [mem_varEnumsOf_doc x i h, mem_resultEnumsOf_doc x i h, mem_fragEnumsOf_doc x i h]

/-- `generateDoc` succeeds exactly when `toInput` does, with `Prune.generate`'s output. -/
theorem generateDoc_ok_iff (x : DocInput) (out : Output) :
    generateDoc x = .ok out ↔ ∃ i, toInput x = .ok i ∧ generate i = some out := by
  rw [generateDoc_eq]
  cases ht : toInput x with
  | error e => simp
  | ok i =>
    obtain ⟨o, ho⟩ := generate_total i
    simp [ho]

/-- The only errors are the two `ParsingError`s of the arguments generator (never the fuel). -/
theorem doc_error_iff (x : DocInput) (e : Err) : generateDoc x = .error e ↔ toInput x = .error e := by
  rw [generateDoc_eq]
  cases ht : toInput x with
  | error e' => simp
  | ok i =>
    obtain ⟨o, ho⟩ := generate_total i
    simp [ho]

/-- A refused document is refused because of one variable, named in the error. -/
theorem doc_refuses (x : DocInput) (e : Err) (h : generateDoc x = .error e) :
    ∃ op ∈ x.ops, ∃ t ∈ op.vars,
      (kindOf x t.base = .missing ∧ e = .argNotFound t.base) ∨ (kindOf x t.base = .other ∧ e = .argIncorrect t.base) := by
  rw [doc_error_iff] at h
  unfold toInput toInputWith at h
  cases ho : opsOf (kindOf x) x.ops with
  | ok os => simp [ho] at h
  | error e' =>
    simp only [ho, Except.error.injEq] at h
    subst h
    obtain ⟨op, hop, hb⟩ := opsOf_error _ _ _ ho
    obtain ⟨t, ht, hbad⟩ := firstBad_eq_some _ _ _ hb
    refine ⟨op, hop, t, ht, ?_⟩
    unfold badOf at hbad
    cases hk : kindOf x t.base <;> simp [hk] at hbad
    · exact .inr ⟨rfl, hbad.symm⟩
    · exact .inl ⟨rfl, hbad.symm⟩

/-- Documents whose variables are typed are never refused (all flag combinations). -/
theorem doc_total (x : DocInput) (h : VarsTyped x) : ∃ out, generateDoc x = .ok out := by
  have hg : ∀ op ∈ x.ops, firstBad (kindOf x) op.vars = none := by
    intro op hop
    rw [firstBad_eq_none]
    intro t ht
    unfold badOf
    rcases h op hop t ht with hk | hk | hk <;> simp [hk]
  have ho := opsOf_of_good (kindOf x) x.ops hg
  have : ∃ i, toInput x = .ok i := by
    unfold toInput toInputWith
    rw [ho]
    exact ⟨_, rfl⟩
  obtain ⟨i, hi⟩ := this
  obtain ⟨out, hout⟩ := generate_total i
  exact ⟨out, (generateDoc_ok_iff x out).mpr ⟨i, hi, hout⟩⟩

/-- Refusal does not depend on the two flags: the pruned run fails exactly when the unpruned one does,
    with the same error. -/
theorem doc_error_flag_independent (x : DocInput) (e : Err) :
    generateDoc x = .error e ↔ generateDoc (unprunedDoc x) = .error e := by
  rw [doc_error_iff, doc_error_iff, toInput_unprunedDoc]
  cases toInput x <;> simp

/-- `include_all_inputs = false`: input_types.py is the closure of the variables' input objects. -/
theorem doc_inputs_is_closure (x : DocInput) (out : Output) (h : generateDoc x = .ok out) (hf : x.allInputs = false) :
    ∃ p : InputDef → Bool, out.inputsModule = x.inputs.filter p ∧ ∀ c, p c = true ↔ DocInClosure x c.name := by
  obtain ⟨i, hi, hg⟩ := (generateDoc_ok_iff x out).mp h
  obtain ⟨hin, _, hai, _⟩ := toInput_fields x i hi
  obtain ⟨p, e, hp⟩ := inputs_is_closure i out hg (by rw [hai]; exact hf)
  exact ⟨p, by rw [e, hin], fun c => (hp c).trans ((doc_vocabulary x i hi).1 c.name)⟩

/-- `include_all_enums = false`: enums.py holds exactly the enums of variable types (under any wrappers),
    of retained input classes, of the operations' result types and of the fragment definitions that
    fragments.py holds — an enum used only by fragments that some operation unpacked is not among them. -/
theorem doc_enums_is_closure (x : DocInput) (out : Output) (h : generateDoc x = .ok out) (hf : x.allEnums = false) :
    ∃ q : EnumDef → Bool, out.enumsModule = x.enums.filter q ∧
      ∀ c, q c = true ↔ DocEnumNeeded x out.inputsModule c.name := by
  obtain ⟨i, hi, hg⟩ := (generateDoc_ok_iff x out).mp h
  obtain ⟨_, hen, _, hae, _⟩ := toInput_fields x i hi
  obtain ⟨q, e, hq⟩ := enums_is_closure i out hg (by rw [hae]; exact hf)
  exact ⟨q, by rw [e, hen], fun c => (hq c).trans ((doc_vocabulary x i hi).2 out.inputsModule c.name)⟩

/-- The set `_fragments_names` may be enumerated in any order: the package does not change. -/
theorem doc_set_order_irrelevant (e : List FragDef → List FragDef) (he : ∀ l, (e l).Perm l) (x : DocInput) :
    generateDocWith false e x = generateDoc x := by
  unfold generateDoc
  rw [generateDocWith_eq, generateDocWith_eq]
  unfold toInputWith
  cases ho : opsOf (kindOf x) x.ops with
  | error err => rfl
  | ok os =>
    simp only
    have := generate_frag_congr
      { inputs := x.inputs, enums := x.enums, ops := os, fragEnums := fragmentsEnumsWith id x.frags (unpackedOf x),
        allInputs := x.allInputs, allEnums := x.allEnums, customOps := x.customOps,
        customInputs := x.customInputs, customEnums := x.customEnums }
      (fragmentsEnumsWith e x.frags (unpackedOf x))
      (fun n => by
        simp only
        rw [mem_fragmentsEnumsWith e he, mem_fragmentsEnumsWith id (fun l => List.Perm.refl l)])
    simp only at this
    rw [this]

/-- C09 for documents, outside the trigger of C09-F1: whenever the unpruned package is produced and
    loads, the pruned one is produced and `Holds`. -/
theorem C09_doc (x : DocInput) (i : Input) (hi : toInput x = .ok i) (outAll : Output)
    (hall : generateDoc (unprunedDoc x) = .ok outAll) (hl : Loads i outAll) (hs : Supported_09 i) :
    ∃ out, generateDoc x = .ok out ∧ Holds i outAll out := by
  obtain ⟨j, hj, hgj⟩ := (generateDoc_ok_iff _ _).mp hall
  rw [toInput_unprunedDoc, hi] at hj
  simp only [Except.ok.injEq] at hj
  subst hj
  obtain ⟨out, hg, hh⟩ := C09_partial i outAll hgj hl hs
  exact ⟨out, (generateDoc_ok_iff x out).mpr ⟨i, hi, hg⟩, hh⟩

/-- The schema's classification agrees with the class tables. -/
def KindsAgree (x : DocInput) : Prop :=
  ∀ p ∈ x.kinds, (p.2 = .input → p.1 ∈ names x.inputs) ∧ (p.2 = .enum → p.1 ∈ enames x.enums)

instance (x : DocInput) : Decidable (KindsAgree x) := by unfold KindsAgree; infer_instance

instance (x : DocInput) : Decidable (VarsTyped x) := by unfold VarsTyped; infer_instance

/-- Two of the side conditions of `Resolvable` are consequences for documents: every root and every
    variable enum is a class of the unpruned modules. -/
theorem doc_roots_defined (x : DocInput) (i : Input) (hi : toInput x = .ok i) (hk : KindsAgree x) :
    (∀ r ∈ varInputsOf i, r ∈ names i.inputs) ∧ (∀ e ∈ varEnumsOf i, e ∈ enames i.enums) := by
  obtain ⟨hin, hen, _⟩ := toInput_fields x i hi
  rw [hin, hen]
  constructor
  · intro r hr
    obtain ⟨_, _, _, _, _, hkr⟩ := (mem_varInputsOf_doc x i hi r).mp hr
    exact (hk _ (mem_kinds_of_kindOf x r .input (by simp) hkr)).1 rfl
  · intro e he
    obtain ⟨_, _, _, _, _, hke⟩ := (mem_varEnumsOf_doc x i hi e).mp he
    exact (hk _ (mem_kinds_of_kindOf x e .enum (by simp) hke)).2 rfl

/-- A closed document description: the kind table agrees with the class tables, the variables are typed,
    and every name an input class, an operation's result types or a fragment definition refers to is a
    class of the unpruned modules (what a schema accepted by graphql-core and validated operations give). -/
def DocResolvable (x : DocInput) : Prop :=
  KindsAgree x ∧ VarsTyped x ∧
  (∀ d ∈ x.inputs, ∀ n ∈ inputRefs d, n ∈ names x.inputs) ∧
  (∀ d ∈ x.inputs, ∀ e ∈ enumRefs d, e ∈ enames x.enums) ∧
  (∀ op ∈ x.ops, ∀ e ∈ op.resultEnums, e ∈ enames x.enums) ∧
  (∀ f ∈ x.frags, ∀ e ∈ f.enums, e ∈ enames x.enums)

instance (x : DocInput) : Decidable (DocResolvable x) := by unfold DocResolvable; infer_instance

theorem doc_resolvable (x : DocInput) (i : Input) (hi : toInput x = .ok i) (h : DocResolvable x) : Resolvable i := by
  obtain ⟨hk, _, h1, h2, h3, h4⟩ := h
  obtain ⟨hin, hen, _⟩ := toInput_fields x i hi
  obtain ⟨hr, hv⟩ := doc_roots_defined x i hi hk
  refine ⟨?_, ?_, hr, hv, ?_, ?_⟩
  · rw [hin]; exact h1
  · rw [hin, hen]; exact h2
  · intro e he
    obtain ⟨op, hop, heo⟩ := (mem_resultEnumsOf_doc x i hi e).mp he
    rw [hen]; exact h3 op hop e heo
  · intro e he
    obtain ⟨f, hf, _, hef⟩ := (mem_fragEnumsOf_doc x i hi e).mp he
    rw [hen]; exact h4 f hf e hef

/-- C09 for closed documents in the default configuration, without any hypothesis about the output:
    for all four flag combinations both packages are produced, the unpruned one is well-scoped, and the
    pruned one loads, holds the closure and nothing else of a pruned kind, identically. -/
theorem C09_doc_closed (x : DocInput) (h : DocResolvable x) (hc : x.customOps = false) :
    ∃ i outAll out, toInput x = .ok i ∧ generateDoc (unprunedDoc x) = .ok outAll ∧ generateDoc x = .ok out ∧
      WellScoped i outAll ∧ Holds i outAll out := by
  obtain ⟨out0, hout0⟩ := doc_total x h.2.1
  obtain ⟨i, hi, _⟩ := (generateDoc_ok_iff x out0).mp hout0
  have hres := doc_resolvable x i hi h
  obtain ⟨outAll, hall⟩ := generate_total (unpruned i)
  have hw' : WellScoped (unpruned i) outAll :=
    resolvable_wellScoped (unpruned i) outAll
      ⟨hres.inputRefs, hres.enumRefs, hres.roots, hres.varEnums, hres.resultEnums, hres.fragEnums⟩ hall
  have hw : WellScoped i outAll :=
    ⟨hw'.inputRefs, hw'.inputEnumsImported, hw'.inputEnumImport, hw'.clientInputsCover, hw'.clientEnumsCover,
      hw'.clientInputs, hw'.clientEnums, hw'.resultEnums, hw'.fragEnums⟩
  have hci : i.customOps = false := by
    obtain ⟨_, _, _, _, hco, _⟩ := toInput_fields x i hi
    rw [hco]; exact hc
  obtain ⟨out, hg, hh⟩ := C09_default i outAll hci hall hw
  refine ⟨i, outAll, out, hi, ?_, (generateDoc_ok_iff x out).mpr ⟨i, hi, hg⟩, hw, hh⟩
  apply (generateDoc_ok_iff _ _).mpr
  refine ⟨unpruned i, ?_, hall⟩
  rw [toInput_unprunedDoc, hi]
  rfl

/-! #### Why `_used_enums` must read the arguments generator after ALL `add_operation` calls -/

/-- `enum E {A}  type Query { f(e: E): Int }   query q($e: [E!]) { f(e: $e) }`, both flags false. -/
def docOrderWitness : DocInput :=
  { kinds := [("E", .enum)], inputs := [], enums := [⟨"E", ""⟩],
    ops := [⟨[.list (.nonNull (.named "E"))], [], []⟩], frags := [], allInputs := false, allEnums := false }

theorem doc_order_real_keeps : generateDoc docOrderWitness = .ok ⟨[], [⟨"E", ""⟩], [], [], ["E"]⟩ := by decide

/-- A variant that extends `_used_enums` from the shared arguments generator inside `add_operation`,
    before `add_method` parsed the operation's own variables, loses the variable enums of the last
    operation: client.py imports `E`, enums.py does not define it. -/
theorem order_matters_add_operation :
    ∃ out, generateDocWith true id docOrderWitness = .ok out ∧
      "E" ∈ out.clientEnums ∧ "E" ∉ enames out.enumsModule := by
  refine ⟨⟨[], [], [], [], ["E"]⟩, by decide, by decide, by decide⟩

/-! #### Non-vacuity (document side) -/

/-- Variables under nested wrappers (`[[In!]!]`, `[E!]`), a scalar variable; `PF` (on a union, no class of its
    own) unpacked by the first operation, `HF` inherited; enum `P` reaches enums.py through the operation
    that unpacked `PF`, `H` through fragments.py, `X` only through the unpacked fragment's own entry:
    pruned. -/
def exDoc : DocInput :=
  { kinds := [("In", .input), ("Dep", .input), ("E", .enum), ("P", .enum), ("H", .enum), ("X", .enum), ("C", .enum),
              ("Int", .scalar), ("Query", .other)],
    inputs := [⟨"In", [.input "Dep"], ""⟩, ⟨"Dep", [.enum "C"], ""⟩, ⟨"Un", [], ""⟩],
    enums := [⟨"E", ""⟩, ⟨"P", ""⟩, ⟨"H", ""⟩, ⟨"X", ""⟩, ⟨"C", ""⟩],
    ops := [⟨[.list (.nonNull (.list (.nonNull (.named "In")))), .named "Int"], ["P"], ["PF"]⟩,
            ⟨[.list (.nonNull (.named "E"))], [], []⟩],
    frags := [⟨"PF", ["X"]⟩, ⟨"HF", ["H"]⟩],
    allInputs := false, allEnums := false }

example : generateDoc exDoc =
    .ok ⟨[⟨"In", [.input "Dep"], ""⟩, ⟨"Dep", [.enum "C"], ""⟩],
         [⟨"E", ""⟩, ⟨"P", ""⟩, ⟨"H", ""⟩, ⟨"C", ""⟩], ["C"], ["In"], ["E"]⟩ := by decide

example : VarsTyped exDoc := by decide

example : KindsAgree exDoc := by decide

example : DocResolvable exDoc ∧ exDoc.customOps = false := by decide

example : varsUse (kindOf exDoc) [.list (.nonNull (.list (.nonNull (.named "In")))), .named "Int", .nonNull (.named "E")] =
    .ok ⟨["In"], ["E"]⟩ := rfl

/-- the abstraction `exDoc` amounts to -/
def exDocInput : Input :=
  { inputs := exDoc.inputs, enums := exDoc.enums, ops := [⟨["In"], [], ["P"]⟩, ⟨[], ["E"], []⟩], fragEnums := some ["H"],
    allInputs := false, allEnums := false }

example : toInput exDoc = .ok exDocInput := rfl

/-- the hypotheses of `C09_doc` are satisfiable: the unpruned package of `exDoc` loads -/
example : ∃ outAll, generateDoc (unprunedDoc exDoc) = .ok outAll ∧ Loads exDocInput outAll ∧ Supported_09 exDocInput := by
  refine ⟨⟨exDoc.inputs, exDoc.enums, ["C"], ["In"], ["E"]⟩, by decide, ⟨⟨?_, ?_, ?_, ?_, ?_, ?_, ?_, ?_, ?_⟩, ?_⟩, by decide⟩ <;>
    simp [exDocInput, exDoc, varInputsOf, varEnumsOf, resultEnumsOf, fragEnumsOf, names, enames, CustomLoads,
      Prune.inputRefs, Prune.enumRefs]

/-- every fragment unpacked: fragments.py is not written -/
example : (toInput { exDoc with frags := [⟨"PF", ["X"]⟩] }).toOption.map (·.fragEnums) = some none := by decide

/-- a variable of object type is refused, pruned or not -/
example : generateDoc { exDoc with ops := [⟨[.named "Query"], [], []⟩] } = .error (.argIncorrect "Query") := by decide

/-- `doc_set_order_irrelevant` is not vacuous: the reversed enumeration -/
example : generateDocWith false List.reverse exDoc = generateDoc exDoc := by decide

end Doc

end Ariadne.C09
