/-
  C15 — Bundled plugins preserve client behaviour apart from their documented change.

  "For every input and every subset of the bundled plugins, the package still loads and each method
   sends the same request and accepts the same responses as without plugins. ShorterResults changes
   only the return value to exactly the single top-level field of the unplugged result,
   ExtractOperations moves the identical operation strings to a module the client imports,
   ClientForwardRefs defers imports without changing any annotation's meaning, NoReimports only empties
   __init__; a plugin overriding no hook changes no byte, and several plugins are applied to each hook
   in configuration order."

  Statements and final proofs.  Models: Model/Plugins.lean (plugin manager + the four bundled
  plugins on the Python-AST fragment Model/PyIR.lean), Model/PluginPipeline.lean (hook call sites of
  client.py / init_file.py), Model/ClientSem.lean (shape and denotation of a generated method),
  Model/PluginFindings.lean (finding triggers).  Lemmas: Proofs/C15.lean.

  Quantification: every hook call, every payload, every plugin list (any length, any order, any
  plugin state), every method of the shape client.py emits (`bodyOf s` for every `Shape`), every
  class dictionary, every list of methods (§3b: ShorterResults over the whole generation run, per method,
  history-free), every response.  The whole-pipeline statement `C15_full` is false on the pinned
  tree (six witnesses, §9); `C15_partial` is what is proved of it — for every configuration made of
  ShorterResults, ExtractOperations, NoReimports and the identity plugin in any order, i.e. every configuration
  without ClientForwardRefs, and for every configuration with ClientForwardRefs in which no ShorterResults comes
  after it (`Proved_15`); the per-plugin theorems of
  §3–§6 hold without any restriction on the plugin list.  §8b: the plugin manager itself over the regenerated
  table of hooks (dispatch, order, `None`, exceptions, construction, configuration lookup).
  Further models: Model/PluginManager.lean, Model/PluginWhole.lean (vocabulary of §9);
  further lemmas: Proofs/C15History, C15Shape, C15Quiet, C15ShorterModule, C15ShorterRun, C15ShorterWhole,
  C15ShorterMain, C15ShorterPipeline, C15ExtractRun, C15ExtractWhole, C15ShorterRel, C15ShorterRelRun, C15ShorterRelWhole,
  C15FwdModule, C15FwdImports, C15FwdRel, C15FwdRelRun, C15FwdRelWhole (Model/PluginWholeF.lean).
-/
import AriadneModel.Proofs.C15
import AriadneModel.Proofs.C15History
import AriadneModel.Proofs.C15ShorterPipeline
import AriadneModel.Proofs.C15ExtractWhole
import AriadneModel.Proofs.C15ShorterRelWhole
import AriadneModel.Proofs.C15FwdRelWhole
import AriadneModel.Model.PluginManager
import AriadneModel.Model.PluginWhole
import AriadneModel.Generated.Tables
import AriadneModel.Generated.PluginTables

set_option linter.unusedSimpArgs false
set_option linter.unusedVariables false

namespace Ariadne.C15
open Ariadne Ariadne.Py Ariadne.Plugins Ariadne.ClientSem

/-! ## 1. The plugin manager: hooks in configuration order (all lists, all hooks, any state type) -/

/-- `_apply_plugins_on_object` on `p :: ps` = the hook of `p` first, then the rest of the list on
    what `p` returned (and every plugin keeps the state its own hook produced). -/
theorem hooks_in_order {σ : Type} (step : Call → σ → Payload → M (σ × Payload)) (c : Call)
    (p : σ) (ps : List σ) (x : Payload) :
    applyAll step c (p :: ps) x =
      (step c p x >>= fun r => applyAll step c ps r.2 >>= fun r' => pure (r.1 :: r'.1, r'.2)) :=
  applyAll_cons step c p ps x

theorem hooks_in_order_nil {σ : Type} (step : Call → σ → Payload → M (σ × Payload)) (c : Call) (x : Payload) :
    applyAll step c [] x = pure ([], x) := rfl

/-- Splitting the configured list anywhere: the second part sees what the first part returned. -/
theorem hooks_in_order_append {σ : Type} (step : Call → σ → Payload → M (σ × Payload)) (c : Call)
    (ps qs : List σ) (x : Payload) :
    applyAll step c (ps ++ qs) x =
      (applyAll step c ps x >>= fun r => applyAll step c qs r.2 >>= fun r' => pure (r.1 ++ r'.1, r'.2)) :=
  applyAll_append step c ps qs x

/-! ## 2. A plugin overriding no hook changes nothing -/

/-- alone, for every hook and every object -/
theorem identity_plugin_noop (c : Call) (x : Payload) : manager c [.identity] x = pure ([.identity], x) := rfl

/-- anywhere in any list of plugins (any state type): the other plugins see and return exactly
    what they see and return without it, for every hook -/
theorem identity_plugin_noop_anywhere {σ : Type} (step : Call → σ → Payload → M (σ × Payload)) (idp : σ)
    (hid : ∀ c x, step c idp x = .ok (idp, x)) (c : Call) (a b : List σ) (x : Payload) :
    applyAll step c (a ++ idp :: b) x =
      (applyAll step c a x >>= fun ra => applyAll step c b ra.2 >>= fun rb => pure (ra.1 ++ idp :: rb.1, rb.2)) ∧
    applyAll step c (a ++ b) x =
      (applyAll step c a x >>= fun ra => applyAll step c b ra.2 >>= fun rb => pure (ra.1 ++ rb.1, rb.2)) :=
  ⟨applyAll_insert step idp hid c a b x, applyAll_append step c a b x⟩

/-- a whole generation: with the identity plugin inserted anywhere among any bundled plugins, every
    hook call is handed and returns the same objects (so every emitted file has the same bytes), and
    the generation fails iff it failed without it, with the same exception -/
theorem identity_plugin_noop_pipeline (a b : List PState) (evs : List Event) :
    (runPipeline { plugins := a ++ .identity :: b } evs).1.trace = (runPipeline { plugins := a ++ b } evs).1.trace ∧
    (runPipeline { plugins := a ++ .identity :: b } evs).2 = (runPipeline { plugins := a ++ b } evs).2 := by
  have h := runPipeline_rel evs { plugins := a ++ .identity :: b } { plugins := a ++ b }
    ⟨⟨a, b, rfl, rfl⟩, rfl, rfl, rfl, rfl, rfl, rfl⟩
  exact ⟨h.2.2.2.2.2.2.2, h.1⟩

/-! ## 3. ShorterResults is exactly the projection on the single top-level field -/

/-- "the result class has exactly one field `f`" as the plugin decides it: the class is known, the
    fields collected through the recorded base classes (fragments included) are exactly one
    `f: <ann>`, and the annotation unwraps to `node` -/
theorem shorter_single_field_iff (dict : List (String × ClassDef)) (cls : String) (node : Ex) (classes : List String)
    (f : String) :
    nodeAndClass dict cls = .ok (some (node, classes, f)) ↔
      ∃ cd ann, alookup cls dict = some cd ∧
        getAllFields dict (dict.length + 1) cd = .ok [(.name f, ann)] ∧
        updateNode (ann.size + 1) ann = .ok (node, classes) :=
  nodeAndClass_some dict cls node classes f

/-- query / mutation methods of the shape client.py emits (async or sync), any plugin state:
    single field `f` ⇒ the method becomes the same body with `.f` behind `model_validate` and the
    unwrapped annotation; otherwise the method is returned unchanged; an exception of the lookup
    (`RecursionError` on cyclic bases, unmodelled literal) propagates. -/
theorem shorter_is_projection_method (st : ShorterState) (m : Method) (s : Shape) (aw : Bool) (r d cls : String)
    (hb : m.body = bodyOf s) (ht : s.tail = .call aw r d) (hr : m.returns = some (.name cls)) :
    shorterModifyMethod st m =
      (nodeAndClass st.classDict cls >>= fun x =>
        match x with
        | none => pure (st, m)
        | some (node, classes, f) =>
          pure (shorterUpdateImports st m.name classes,
            { m with returns := some node, body := bodyOf (shorterShape s f) })) :=
  shorter_call st m s aw r d cls hb ht hr

/-- subscriptions: `yield C.model_validate(data).f`, `AsyncIterator[<unwrapped>]` -/
theorem shorter_is_projection_subscription (st : ShorterState) (m : Method) (s : Shape) (d cls : String) (o : Nat) (a : Ex)
    (hb : m.body = bodyOf s) (ht : s.tail = .sub d true o) (hr : m.returns = some (.sub a (.name cls))) :
    shorterModifyMethod st m =
      (nodeAndClass st.classDict cls >>= fun x =>
        match x with
        | none => pure (st, m)
        | some (node, classes, f) =>
          pure (shorterUpdateImports st m.name classes,
            { m with returns := some (.sub (.name "AsyncIterator") node), body := bodyOf (shorterShape s f) })) :=
  shorter_sub st m s d cls o a hb ht hr

/-- the denotation: the rewritten method sends the same request and returns `getattr f` of what the
    original returns — same acceptance, same rejection (`sem (SR m) = (req m, proj f ∘ ret m)`), in
    every package, for every response, whatever pydantic and `getattr` are -/
theorem shorter_is_projection {PyV : Type} (validate : String × String → J → Except String PyV)
    (getattr : String → PyV → PyV) (pkg : Pkg) (s : Shape) (f : String) :
    (sem validate getattr pkg (shorterShape s f)).1 = (sem validate getattr pkg s).1 ∧
    ∀ d, (sem validate getattr pkg (shorterShape s f)).2 d = ((sem validate getattr pkg s).2 d).map (getattr f) :=
  ⟨request_shorterShape pkg s f, fun d => respond_shorterShape validate getattr pkg s f d⟩

/-- "unchanged otherwise", the part that depends on the annotation: a return annotation that is not
    a plain class name is never touched -/
theorem shorter_unchanged_without_class_annotation (st : ShorterState) (m : Method) (s : Shape) (aw : Bool) (r d : String)
    (hb : m.body = bodyOf s) (ht : s.tail = .call aw r d) (hr : ∀ id, m.returns ≠ some (.name id)) :
    shorterModifyMethod st m = pure (st, m) :=
  shorter_skips_non_name st m s aw r d hb ht hr

/-! ## 3b. ShorterResults over a whole generation run: per method, history-free

  `generate_client_module` walks ALL methods of the client class with ONE plugin object.  The theorems of §3
  speak about one call of `_modify_method_def` in an arbitrary plugin state; the theorems here speak about
  the whole walk, for every list of methods (= every list of operations, in every order). -/

/-- the k-th method of the client class comes out exactly as ShorterResults would rewrite it if it were
    handed that method alone, in ANY plugin state that recorded the same result classes — whatever
    methods were rewritten before it and whatever imports were collected on the way.  (The seeded change
    `visited_bases` shared between calls breaks exactly this: there the outcome for method k depends on the
    fragment bases walked for the methods before it.) -/
theorem shorter_per_method_history_free (st st' : ShorterState) (items items' : List ClassItem)
    (h : mapMethodsM shorterModifyMethod st items = .ok (st', items')) :
    st'.classDict = st.classDict ∧ st'.importedTypes = st.importedTypes ∧
    ItemsRel (fun m m' => ∀ st0 : ShorterState, st0.classDict = st.classDict →
      (shorterModifyMethod st0 m).map (·.2) = .ok m') items items' := by
  obtain ⟨hro, hrel⟩ := shorter_methods_history_free items st st' items' h
  exact ⟨congrArg (fun t => t.2.1) hro, congrArg (fun t => t.2.2) hro, hrel⟩

/-- the method a plugin object leaves behind (or the exception it dies with) is a function of the method
    and of the recorded classes alone -/
theorem shorter_method_depends_on_classes_only (st1 st2 : ShorterState) (m : Method) (hd : st1.classDict = st2.classDict) :
    (shorterModifyMethod st1 m).map (·.2) = (shorterModifyMethod st2 m).map (·.2) :=
  shorterModifyMethod_state_free st1 st2 m hd

/-- "the rewritten method returns exactly the single top-level field's value iff the result class has exactly
    one field counting inherited fragment fields": for a query / mutation method of the generated shape in
    ANY plugin state, the body becomes `… return C.model_validate(data).f` iff `SingleField classes C f ann`
    (`_get_all_fields` over the recorded base classes yields exactly `f: ann`), and the method is returned
    untouched iff no field is single. -/
theorem shorter_projects_iff_single_field (st st' : ShorterState) (m m' : Method) (s : Shape) (aw : Bool) (r d cls : String)
    (hb : m.body = bodyOf s) (ht : s.tail = .call aw r d) (hr : m.returns = some (.name cls))
    (h : shorterModifyMethod st m = .ok (st', m')) :
    (∀ f, m'.body = bodyOf (shorterShape s f) ↔ ∃ ann, SingleField st.classDict cls f ann) ∧
    (m' = m ↔ ∀ f ann, ¬ SingleField st.classDict cls f ann) :=
  shorter_call_iff st st' m m' s aw r d cls hb ht hr h

/-- the same for subscription methods (`yield C.model_validate(data).f`) -/
theorem shorter_projects_iff_single_field_subscription (st st' : ShorterState) (m m' : Method) (s : Shape) (d cls : String)
    (o : Nat) (a : Ex) (hb : m.body = bodyOf s) (ht : s.tail = .sub d true o) (hr : m.returns = some (.sub a (.name cls)))
    (h : shorterModifyMethod st m = .ok (st', m')) :
    (∀ f, m'.body = bodyOf (shorterShape s f) ↔ ∃ ann, SingleField st.classDict cls f ann) ∧
    (m' = m ↔ ∀ f ann, ¬ SingleField st.classDict cls f ann) :=
  shorter_sub_iff st st' m m' s d cls o a hb ht hr h

/-- the two together, for every class body: every query / mutation method of the generated shape, wherever
    it stands among the methods of the client class, is projected on `f` iff ITS OWN result class has the
    single field `f` (inherited fragment fields included) in the classes recorded when the walk started -/
theorem shorter_whole_class_iff (st st' : ShorterState) (items items' : List ClassItem)
    (h : mapMethodsM shorterModifyMethod st items = .ok (st', items')) :
    ItemsRel (fun m m' => ∀ (s : Shape) (aw : Bool) (r d cls : String), m.body = bodyOf s → s.tail = .call aw r d →
      m.returns = some (.name cls) →
        (∀ f, m'.body = bodyOf (shorterShape s f) ↔ ∃ ann, SingleField st.classDict cls f ann) ∧
        (m' = m ↔ ∀ f ann, ¬ SingleField st.classDict cls f ann)) items items' := by
  obtain ⟨_, hrel⟩ := shorter_methods_history_free items st st' items' h
  refine ItemsRel.imp (fun m m' hm s aw r d cls hb ht hr => ?_) hrel
  have h0 := hm st rfl
  cases hs : shorterModifyMethod st m with
  | error e => rw [hs] at h0; cases h0
  | ok r0 =>
    rw [hs] at h0
    have : r0.2 = m' := by simpa [Except.map] using h0
    subst this
    exact shorter_call_iff st r0.1 m r0.2 s aw r d cls hb ht hr (by rw [hs])

/-- the hypotheses "the method has the generated shape" of §3–§5 are decidable: the recogniser `shapeOf`
    (Model/ClientSem.lean) accepts a method iff its body is `bodyOf` of the shape it returns (until now the round trip
    `bodyOf (shapeOf m) = m.body` was validated by the harness on every real method; it still is, but is no
    longer an assumption) -/
theorem shape_recogniser_exact (m : Method) (s : Shape) : shapeOf m = some s ↔ m.body = bodyOf s :=
  shapeOf_iff m s

/-! ## 4. ExtractOperations: the same strings, in a module the client imports -/

/-- bookkeeping of `generate_operation_str`: the string is stored under the operation name and the
    constant is `<SNAKE>_GQL`; the string itself is returned unchanged -/
theorem extract_records_string (st : ExtractState) (c : Call) (s op snake : String)
    (hn : c.opName = some op) (hs : c.opSnake = some snake) :
    extractStep { c with hook := "generate_operation_str" } st (.str s) =
      .ok ({ st with gqls := aset op s st.gqls, vars := aset op (gqlVarName snake) st.vars }, .str s) := by
  simp [extractStep, extract_opStr st { c with hook := "generate_operation_str" } s op snake hn hs, bind_ok, pure_eq_ok]

/-- each method references its own constant, and nothing else of the method changes -/
theorem extract_method_references_own_constant (st : ExtractState) (c : Call) (m : Method) (s : Shape) (q : String)
    (ls : List String) (op v : String)
    (hb : m.body = bodyOf s) (hi : s.imports = []) (ho : s.op = .inline q ls)
    (hn : c.opName = some op) (hv : alookup op st.vars = some v)
    (hk : match s.tail with
          | .call aw _ _ => c.opKind ≠ some "subscription" ∧ st.asyncClient = aw
          | .sub _ _ _ => c.opKind = some "subscription") :
    extractClientMethod st c m = .ok { m with body := bodyOf { s with op := .const v } } :=
  extract_method st c m s q ls op v hb hi ho hn hv hk

/-- the written module binds the constant of every recorded operation to exactly
    `[l + "\n" for l in operation_str.splitlines()]` — the expression client.py inlines -/
theorem extract_module_binds_same_lines (st : ExtractState) (f : OpsFile) (h : extractOpsFile st = .ok f)
    (op g : String) (hg : (op, g) ∈ st.gqls) :
    ∃ v, alookup op st.vars = some v ∧ (v, pyLines g) ∈ f.assigns :=
  extract_opsFile_binds st f h op g hg

/-- `extract_same_strings`: a method whose inlined lines are the lines of the recorded string
    (what `_generate_operation_str_assign` builds) sends, after extraction, the identical query text,
    operation name and variables — provided the client module binds `gql` before and imports the
    constant from the written module after (both are what `generate_client_module` arranges) -/
theorem extract_same_strings (pkgU pkgP : Pkg) (s : Shape) (q g v opsName : String) (f : OpsFile)
    (ho : s.op = .inline q (pyLines g))
    (hgql : (moduleNames pkgU.client).contains "gql" = true)
    (hops : pkgP.ops = some (opsName, f))
    (himp : resolveRuntime pkgP { s with op := .const v } v = some ("." ++ opsName, v))
    (hbind : alookup v f.assigns = some (pyLines g)) :
    request pkgP { s with op := .const v } = request pkgU s := by
  have hg : "gql" ∈ moduleNames pkgU.client := by simpa using hgql
  unfold request constValue
  simp [ho, hg, hops, himp, hbind]

/-! ## 5. ClientForwardRefs: every call-time name stays bound, every annotation keeps its meaning -/

/-- the validated class is imported at the top of the body from the module recorded for it, the
    rest of the body is untouched (methods with at most one projection, i.e. also after
    ShorterResults) -/
theorem forwardrefs_imports_in_body (st : FwdState) (m : Method) (s : Shape) (src : String)
    (hb : m.body = bodyOf s) (hp : s.proj.length ≤ 1) (hc : alookup s.retClass st.importedClasses = some src) :
    fwdMethod st m = .ok
      ({ st with inputAndReturnTypes := (fwdSignature st m).2.2,
                 importedInMethod := sadd s.retClass st.importedInMethod },
       { m with args := (fwdSignature st m).1, returns := (fwdSignature st m).2.1,
                body := bodyOf (withImport s { module := some src, names := [(s.retClass, none)], level := 0 }) }) :=
  fwd_method st m s src hb hp hc

/-- `forwardrefs_runtime_names`: in the rewritten method the validated class resolves — through the
    in-body import — to (the dotted module text recorded by `_store_imported_classes`, the class):
    the qualified name the removed module-level `from .<module> import <class>` denoted.  (With the
    import levels of the code before commit 0603080 the module text would carry one dot too many.) -/
theorem forwardrefs_runtime_names (pkg : Pkg) (s : Shape) (src : String) :
    resolveRuntime pkg (withImport s { module := some src, names := [(s.retClass, none)], level := 0 }) s.retClass =
      some (src, s.retClass) := by
  simp [resolveRuntime, withImport, importBindings, alookup, dotted]

/-- the request of the rewritten method is the request of the original one -/
theorem forwardrefs_same_request (pkg : Pkg) (s : Shape) (i : ImportFrom) (hop : ∀ c, s.op ≠ .const c) :
    request pkg (withImport s i) = request pkg s := by
  unfold request withImport
  cases h : s.op with
  | inline q ls => rfl
  | const c => exact absurd h (hop c)

/-- annotations: the rewritten annotation is the original with some names quoted … -/
theorem forwardrefs_annotations_same_text (classes : List (String × String)) (e : Ex) (s : List String) :
    unconst (toConst classes e s).1 = unconst e :=
  toConst_unconst classes e s

/-- … only locally imported classes are quoted … -/
theorem forwardrefs_quotes_only_imported (classes : List (String × String)) (e : Ex) (s : List String) (n : String)
    (h : n ∈ (toConst classes e s).2) : n ∈ s ∨ ahas n classes = true :=
  toConst_set classes e s n h

/-- … and every quoted class is imported under `if TYPE_CHECKING:` from the module recorded for it -/
theorem forwardrefs_typechecking_imports (st : FwdState) (groups : List (String × List String))
    (h : fwdTypeCheckingImports st = .ok groups) (cls : String) (hc : cls ∈ st.inputAndReturnTypes) :
    ∃ src names, alookup cls st.importedClasses = some src ∧ alookup src groups = some names ∧ cls ∈ names :=
  fwd_typechecking_complete st groups h cls hc

/-- where the in-body import points: if every local import statement of the module that mentions the
    class names the module text `src` (and one does), then `src` is what `_store_imported_classes`
    records, hence (`forwardrefs_imports_in_body`, `forwardrefs_runtime_names`) what the method imports from -/
theorem forwardrefs_records_import_source (n src : String) (body : List Top) (st : FwdState)
    (hall : ∀ t ∈ body, storeTarget n t = none ∨ storeTarget n t = some src)
    (hex : ∃ t ∈ body, storeTarget n t = some src) :
    alookup n (fwdStoreImported st body).importedClasses = some src :=
  fwd_store_records n src body st hall (.inr hex)

/-- `from .get_me import GetMe` (module "get_me", level 1) is recorded as ".get_me" — the same qualified
    module the unplugged module-level import binds `GetMe` to -/
example :
    storeTarget "GetMe" (.simple (.importFrom { module := some "get_me", names := [("GetMe", none)], level := 1 })) = some ".get_me" ∧
    importBindings [{ module := some "get_me", names := [("GetMe", none)], level := 1 }] = [("GetMe", (".get_me", "GetMe"))] ∧
    importBindings [{ module := some ".get_me", names := [("GetMe", none)], level := 0 }] = [("GetMe", (".get_me", "GetMe"))] := by
  decide +kernel

/-- a validated "class" that no local import provides kills the generation (finding C15-F5) -/
theorem forwardrefs_keyerror (st : FwdState) (m : Method) (last : Stmt) (cls : String)
    (hl : m.body.getLast? = some last) (hi : fwdImportClass last = some cls)
    (hc : alookup cls st.importedClasses = none) : fwdMethod st m = .error "KeyError" :=
  fwd_method_keyerror st m last cls hl hi hc

/-! ## 6. NoReimports only empties `__init__` -/

/-- every other hook returns its argument -/
theorem noreimports_other_hooks_identity (c : Call) (x : Payload) (h : c.hook ≠ "generate_init_module") :
    PState.step c .noReimports x = .ok (.noReimports, x) := by
  simp [PState.step, noReimports_other_hooks c x h, pure_eq_ok]

/-- `noreimports_only_init`: wherever NoReimports stands in the list, the init module that leaves the
    plugin manager is empty (no later bundled plugin puts anything back) -/
theorem noreimports_only_init (c : Call) (hc : c.hook = "generate_init_module") (a b l : List PState) (m : Module) (y : Payload)
    (h : manager c (a ++ .noReimports :: b) (.module m) = .ok (l, y)) : y = .module { body := [] } := by
  unfold manager at h
  rw [applyAll_append] at h
  cases ha : applyAll PState.step c a (.module m) with
  | error e => rw [ha] at h; cases h
  | ok ra =>
    rw [ha] at h
    simp only [bind_ok] at h
    rw [applyAll_cons] at h
    have hN : PState.step c .noReimports ra.2 = .ok (.noReimports, noReimportsStep c ra.2) := rfl
    rw [hN] at h
    simp only [bind_ok] at h
    obtain ⟨m', hm'⟩ := applyAll_keeps_module c a ra.1 m ra.2 (by rw [ha])
    have hemp : noReimportsStep c ra.2 = .module { body := [] } := by rw [hm']; simp [noReimportsStep, hc]
    rw [hemp] at h
    cases hb : applyAll PState.step c b (.module { body := [] }) with
    | error e => rw [hb] at h; cases h
    | ok rb =>
      rw [hb] at h
      simp only [bind_ok, pure_eq_ok, Except.ok.injEq, Prod.mk.injEq] at h
      rw [← h.2]
      exact empty_init_through_list c hc b rb.1 rb.2 hb


/-! ## 7. Configuration order matters for exactly one pair (finding C15-F3) -/

/-- `[ClientForwardRefs, ShorterResults]`: what ClientForwardRefs leaves of a method (return
    annotation quoted) is skipped by ShorterResults whatever the result class looks like — the
    documented shortening silently does not happen, while `[ShorterResults, ClientForwardRefs]`
    shortens (§3) and then defers the imports (§5, `proj.length ≤ 1`). -/
theorem shorter_after_forwardrefs_noop (stF : FwdState) (stS : ShorterState) (m : Method) (s : Shape) (aw : Bool)
    (r d cls src : String)
    (hb : m.body = bodyOf s) (ht : s.tail = .call aw r d) (hp : s.proj.length ≤ 1)
    (hr : m.returns = some (.name cls)) (hcls : ahas cls stF.importedClasses = true)
    (hc : alookup s.retClass stF.importedClasses = some src) :
    ∃ stF' m', fwdMethod stF m = .ok (stF', m') ∧ shorterModifyMethod stS m' = .ok (stS, m') :=
  shorter_after_fwd_method stF stS m s aw r d cls src hb ht hp hr hcls hc

/-! ## 8. The model reacts to exactly the hooks the source overrides (regenerated tables) -/

/-- split a comma separated table entry -/
def splitCommaAux : List Char → List Char → List String
  | [], cur => [String.ofList cur.reverse]
  | c :: rest, cur => if c == ',' then String.ofList cur.reverse :: splitCommaAux rest [] else splitCommaAux rest (c :: cur)

def splitComma (s : String) : List String := if s == "" then [] else splitCommaAux s.toList []

def overridesOf (plugin : String) : List String :=
  match Ariadne.Tables.pluginOverrides.find? (fun kv => kv.1 == plugin) with
  | some kv => splitComma kv.2
  | none => []

theorem table_noreimports_overrides : overridesOf "NoReimportsPlugin" = ["generate_init_module"] := by decide +kernel
theorem table_forwardrefs_overrides : overridesOf "ClientForwardRefsPlugin" = ["generate_client_module"] := by decide +kernel
theorem table_extract_overrides : overridesOf "ExtractOperationsPlugin" =
    ["generate_client_method", "generate_client_module", "generate_init_module", "generate_operation_str"] := by decide +kernel
theorem table_shorter_overrides : overridesOf "ShorterResultsPlugin" =
    ["generate_client_module", "generate_fragments_module", "generate_result_class", "generate_result_types_module"] := by decide +kernel
/-- every overridden hook is a hook of `plugins.base.Plugin` -/
theorem table_overrides_are_hooks :
    (Ariadne.Tables.pluginOverrides.all fun kv => (splitComma kv.2).all Ariadne.Tables.pluginHooks.contains) = true := by
  decide +kernel

/-- the model of each bundled plugin returns its argument (and keeps its state) on every hook the
    source class does not override -/
theorem model_ignores_other_hooks_fwd (c : Call) (st : FwdState) (x : Payload)
    (h : c.hook ∉ overridesOf "ClientForwardRefsPlugin") : fwdStep c st x = .ok (st, x) := by
  rw [table_forwardrefs_overrides] at h
  unfold fwdStep
  split <;> simp_all [pure_eq_ok]

theorem model_ignores_other_hooks_noreimports (c : Call) (x : Payload)
    (h : c.hook ∉ overridesOf "NoReimportsPlugin") : noReimportsStep c x = x := by
  rw [table_noreimports_overrides] at h
  exact noReimports_other_hooks c x (by simpa using h)

theorem model_ignores_other_hooks_extract (c : Call) (st : ExtractState) (x : Payload)
    (h : c.hook ∉ overridesOf "ExtractOperationsPlugin") : extractStep c st x = .ok (st, x) := by
  rw [table_extract_overrides] at h
  unfold extractStep
  split <;> simp_all [pure_eq_ok]

theorem model_ignores_other_hooks_shorter (c : Call) (st : ShorterState) (x : Payload)
    (h : c.hook ∉ overridesOf "ShorterResultsPlugin") : shorterStep c st x = .ok (st, x) := by
  rw [table_shorter_overrides] at h
  unfold shorterStep
  split <;> simp_all [pure_eq_ok]

/-! ## 8b. The plugin manager itself: every hook of the regenerated table goes through the same loop -/

section Manager
open Ariadne.PluginTables

/-- `PluginManager` has exactly one public method per hook of `plugins.base.Plugin` … -/
theorem table_wrappers_cover_hooks : managerWrappers.map (·.1) = Ariadne.Tables.pluginHooks := by decide +kernel

theorem table_base_hooks_are_hooks : pluginBaseHooks.map (·.1) = Ariadne.Tables.pluginHooks := by decide +kernel

/-- … with the same parameters as the hook of the base class … -/
theorem table_wrapper_params_match_base :
    managerWrappers.map (fun r => (r.1, r.2.2.2.1)) = pluginBaseHooks.map (fun r => (r.1, r.2.1)) := by decide +kernel

/-- `return self._apply_plugins_on_object("<own name>", <first parameter>, <every other parameter by keyword under its own name>)` -/
def wrapperUniform (r : String × String × String × String × String) : Bool :=
  let params := splitComma r.2.2.2.1
  r.2.1 == r.1 && some r.2.2.1 == params.head? && splitComma r.2.2.2.2 == (params.drop 1).map (fun p => p ++ "=" ++ p)

/-- … every wrapper but `process_schema` is that one statement … -/
theorem table_wrappers_uniform :
    ((managerWrappers.filter (fun r => r.1 != "process_schema")).all wrapperUniform) = true := by decide +kernel

/-- … and `process_schema`, which loops over the plugins itself (and stores the schema on every plugin — an
    attribute no bundled plugin reads), calls `plugin.process_schema`: in the table its target is its own name too -/
theorem table_process_schema_loops_itself : nonUniformWrappers.map (·.1) = ["process_schema"] := by decide +kernel

/-- every hook of the base class returns its first argument: the model of a plugin that overrides nothing
    (`PState.identity`, and every bundled plugin on the hooks it does not override) is the identity -/
theorem table_base_hooks_return_first_argument :
    (pluginBaseHooks.all fun r => some r.2.2 == (splitComma r.2.1).head?) = true := by decide +kernel

/-- the string each wrapper hands to `getattr(plugin, …)` is its own name, for every hook of the table -/
theorem table_wrapper_dispatches_own_hook : ∀ w ∈ Ariadne.Tables.pluginHooks, wrapperTarget w = some w := by
  decide +kernel

/-- `hooks_in_order` over the table: for EVERY hook `w` of `plugins.base.Plugin`, calling
    `plugin_manager.w(obj, …)` with the configured list `p :: ps` runs `p.w(obj, …)` first and then the rest of
    the list, in configuration order, on what `p` returned (any plugin type, any state, any object) -/
theorem hooks_in_order_table {σ : Type} (step : Call → σ → Payload → M (σ × Payload)) (w : String)
    (hw : w ∈ Ariadne.Tables.pluginHooks) (c : Call) (p : σ) (ps : List σ) (x : Payload) :
    managerVia step w c (p :: ps) x =
      (step { c with hook := w } p x >>= fun r =>
        applyAll step { c with hook := w } ps r.2 >>= fun r' => pure (r.1 :: r'.1, r'.2)) := by
  unfold managerVia
  rw [table_wrapper_dispatches_own_hook w hw]
  exact applyAll_cons step { c with hook := w } p ps x

theorem hooks_in_order_table_nil {σ : Type} (step : Call → σ → Payload → M (σ × Payload)) (w : String)
    (hw : w ∈ Ariadne.Tables.pluginHooks) (c : Call) (x : Payload) :
    managerVia step w c [] x = pure ([], x) := by
  unfold managerVia
  rw [table_wrapper_dispatches_own_hook w hw]
  rfl

/-- a name that is not a method of `PluginManager` -/
example : (match managerVia PState.step "generate_nothing" {hook := ""} [.identity] (.str "x") with
    | .error e => e == "AttributeError"
    | .ok _ => false) = true := by
  decide +kernel

/-- no guard on what a hook returns: a plugin whose hook returns `None` hands `None` to the next plugin … -/
theorem none_is_passed_on {σ : Type} (step : Call → σ → Payload → M (σ × Payload)) (c : Call) (p p' q : σ) (ps : List σ)
    (x : Payload) (h : step c p x = .ok (p', pyNone)) :
    applyAll step c (p :: q :: ps) x =
      (step c q pyNone >>= fun r => applyAll step c ps r.2 >>= fun r' => pure (p' :: r.1 :: r'.1, r'.2)) := by
  rw [applyAll_cons, h]
  simp only [bind_ok]
  rw [applyAll_cons]
  cases step c q pyNone with
  | error e => rfl
  | ok r =>
    simp only [bind_ok]
    cases applyAll step c ps r.2 with
    | error e => rfl
    | ok r' => rfl

/-- … and if it is the last plugin, `None` is what the generator gets back -/
theorem none_is_returned {σ : Type} (step : Call → σ → Payload → M (σ × Payload)) (c : Call) (p p' : σ)
    (x : Payload) (h : step c p x = .ok (p', pyNone)) : applyAll step c [p] x = .ok ([p'], pyNone) := by
  rw [applyAll_cons, h]
  rfl

/-- an exception raised by a hook propagates; the plugins after it are not called -/
theorem hook_exception_propagates {σ : Type} (step : Call → σ → Payload → M (σ × Payload)) (c : Call) (p : σ) (ps : List σ)
    (x : Payload) (e : Err) (h : step c p x = .error e) : applyAll step c (p :: ps) x = .error e := by
  rw [applyAll_cons, h]
  rfl

/-- the bundled plugins never return `None` for an AST they are handed (they return the object they were
    given, a rebuilt object of the same kind, or raise) — for modules this is `applyAll_keeps_module` -/
example : (testStep { hook := "generate_enum" } (.tag "A") pyNone) = .ok (.tag "A", .opaque "None|A:generate_enum") := rfl

/-! ### from the configured strings to the plugin list (plugins/explorer.py), construction, configuration lookup -/

theorem getPluginsTypes_from {α : Type} : ∀ (entries : List (PluginRef α)) (acc : List α),
    entries.foldl (fun classes e => classes ++ e.classes) acc = acc ++ entries.flatMap PluginRef.classes := by
  intro entries
  induction entries with
  | nil => intro acc; simp
  | cons e rest ih => intro acc; simp only [List.foldl_cons, List.flatMap_cons]; rw [ih]; simp [List.append_assoc]

/-- `explorer_configuration_order`: the list of plugin classes handed to `PluginManager` is the concatenation, in
    configuration order, of what each configured string stands for — whichever way a plugin is spelled (class path or
    module), an entry configured earlier comes earlier, and nothing is dropped or merged -/
theorem explorer_configuration_order {α : Type} (e : PluginRef α) (es : List (PluginRef α)) :
    getPluginsTypes (e :: es) = e.classes ++ getPluginsTypes es := by
  unfold getPluginsTypes
  simp only [List.foldl_cons, List.nil_append]
  rw [getPluginsTypes_from es e.classes, getPluginsTypes_from es []]
  simp

theorem explorer_configuration_order_append {α : Type} (a b : List (PluginRef α)) :
    getPluginsTypes (a ++ b) = getPluginsTypes a ++ getPluginsTypes b := by
  unfold getPluginsTypes
  rw [getPluginsTypes_from, getPluginsTypes_from a [], getPluginsTypes_from b []]
  simp

/-- a configuration spelled with class paths only is the configured list itself -/
theorem explorer_class_paths (ks : List PluginKind) : getPluginsTypes (ks.map PluginRef.classPath) = ks := by
  induction ks with
  | nil => rfl
  | cons k rest ih => rw [List.map_cons, explorer_configuration_order, ih]; rfl

/-- mixed spellings: `[module shorter_results, class path ClientForwardRefsPlugin]` is `[ShorterResults, ClientForwardRefs]`,
    the module `ariadne_codegen.contrib` stands for its four plugin classes in `getmembers` (name) order -/
example : getPluginsTypes [PluginRef.module [PluginKind.shorter], .classPath .fwd] = [.shorter, .fwd] ∧
    getPluginsTypes [PluginRef.classPath PluginKind.identity, .module [.fwd, .extract, .noReimports, .shorter]] =
      [.identity, .fwd, .extract, .noReimports, .shorter] := by decide

/-! ### construction and configuration lookup -/

/-- `PluginManager.__init__`: one instance per configured class, in configuration order, each from the same
    configuration dictionary -/
theorem plugins_constructed_in_order (config : J) (k : PluginKind) (ks : List PluginKind) :
    initPlugins config (k :: ks) =
      (initPlugin config k >>= fun p => initPlugins config ks >>= fun ps => pure (p :: ps)) := by
  unfold initPlugins
  rw [List.mapM_cons]

/-- under `[tool.ariadne-codegen]` the plugins and the generator read the same section … -/
theorem config_lookup_agrees_under_tool (kvs tkvs : List (String × J)) (sect : J)
    (h1 : J.lookup "tool" kvs = some (.obj tkvs)) (h2 : J.lookup "ariadne-codegen" tkvs = some sect) :
    toolSection (.obj kvs) = .ok sect ∧ getSection (.obj kvs) = .ok sect ∧
    shorterFragmentsModuleName (.obj kvs) = generatorFragmentsModuleName (.obj kvs) := by
  have ht : toolSection (.obj kvs) = .ok sect := by
    simp [toolSection, cfgGet, h1, h2, bind_ok, pure_eq_ok]
  have hg : getSection (.obj kvs) = .ok sect := by
    simp [getSection, h1, h2, pure_eq_ok]
  exact ⟨ht, hg, by unfold shorterFragmentsModuleName generatorFragmentsModuleName; rw [ht, hg]⟩

/-- … under the deprecated top-level `[ariadne-codegen]` section they do not: the generator takes the option,
    ShorterResults falls back to the default (finding C15-F8) -/
theorem config_lookup_legacy_section_differs :
    let config : J := .obj [("ariadne-codegen", .obj [("fragments_module_name", .str "frags")])]
    (shorterFragmentsModuleName config).toOption = some "fragments" ∧
    (generatorFragmentsModuleName config).toOption = some "frags" := by
  decide +kernel

end Manager

/-! ## 9. The whole property on the pipeline model: false in general, proved outside the findings -/

-- `configOK`, `loadsB`, `projOKB`, `SameBehaviour`, `validB` (the vocabulary of the statement below): Model/PluginWhole.lean

/-- the property at full strength, for every valid input and every configuration -/
def C15_full : Prop :=
  ∀ x : Input, validB x = true → loadsB x.plugins x = true ∧ projOKB x.plugins x = true ∧ SameBehaviour x.plugins x

/-! ### witnesses (the models of the replayed corpus entries corpus/C15/*.json) -/

namespace W

def shape (cls opName : String) (lines : List String) : Shape :=
  { imports := [], op := .inline "query" lines, opName := opName, varsVar := "variables",
    varsAnn := .sub (.name "Dict") (.tuple [.name "str", .name "object"]), variables := .other "Dict:{}" [],
    kwargs := .name "kwargs", tail := .call true "response" "data", retClass := cls, proj := [] }

def method (name cls opName : String) (lines : List String) : Method :=
  { isAsync := true, name := name, args := [("self", none)], rest := .other "arguments:**kwargs: Any" ["Any"],
    decorators := 0, returns := some (.name cls), body := bodyOf (shape cls opName lines) }

def imp (level : Nat) (m : String) (ns : List String) : ImportFrom := { module := some m, names := ns.map (·, none), level := level }
def ev (hook : String) (p : Payload) : Event := { call := { hook := hook, caller := some "ClientGenerator" }, payload := p }
def evOp (hook op snake : String) (p : Payload) : Event :=
  { call := { hook := hook, opName := some op, opKind := some "query", opSnake := some snake, caller := some "ClientGenerator" },
    payload := p }

def gqlFn : Method :=
  { isAsync := false, name := "gql", args := [("q", some (.name "str"))], rest := .other "arguments:" [],
    decorators := 0, returns := some (.name "str"), body := [.simple (.ret (some (.name "q")))] }

def cls (name : String) (bases : List String) (fields : List (String × Ex)) : ClassDef :=
  { name := name, bases := bases.map Ex.name, keywords := 0,
    body := if fields.isEmpty then [.stmt (.other "Pass:pass" [])] else fields.map (fun f => .stmt (.annAssign (.name f.1) f.2 none)) }

def resultModule (classes : List ClassDef) (extra : List ImportFrom) : Module :=
  { body := [.simple (.importFrom (imp 0 "typing" ["Any", "List", "Optional"])), .simple (.importFrom (imp 1 "base_model" ["BaseModel"]))] ++
      extra.map (fun i => Top.simple (.importFrom i)) ++ classes.map Top.classDef }

/-- the hook calls of an unplugged generation with one operation -/
def events (op snake clsName : String) (classes : List ClassDef) (extraImports : List ImportFrom) (lines : List String)
    (fragments : List ClassDef) (extraMethods : List ClassItem) : List Event :=
  [ ev "generate_client_import" (.imp (imp 0 "typing" ["Optional", "List", "Dict", "Any", "Union", "AsyncIterator"])),
    ev "generate_client_import" (.imp (imp 1 "async_base_client" ["AsyncBaseClient"])),
    ev "generate_client_import" (.imp (imp 1 "base_model" ["UNSET", "UnsetType"])) ] ++
  classes.map (fun c => evOp "generate_result_class" op snake (.klass c)) ++
  [ evOp "generate_result_types_module" op snake (.module (resultModule classes extraImports)),
    evOp "generate_operation_str" op snake (.str (String.join lines)),
    evOp "generate_client_method" op snake (.method (method snake clsName op lines)),
    ev "generate_client_import" (.imp (imp 1 snake [clsName])) ] ++
  fragments.map (fun c => ev "generate_result_class" (.klass c)) ++
  (if fragments.isEmpty then [] else [ev "generate_fragments_module" (.module (resultModule fragments []))]) ++
  [ ev "generate_gql_function" (.method gqlFn),
    ev "generate_client_class" (.klass { name := "Client", bases := [.name "AsyncBaseClient"], keywords := 0,
                                         body := .method (method snake clsName op lines) :: extraMethods }),
    ev "generate_client_module" (.module { body := [] }),
    ev "generate_init_import" (.imp (imp 1 "client" ["Client"])),
    ev "generate_init_module" (.module { body := [] }) ]

/-- C15-F7: `query C { count }`, plugins = [ShorterResults, ClientForwardRefs] -/
def f7 : Input :=
  { plugins := [.shorter {}, .fwd {}],
    events := events "C" "c" "C" [cls "C" ["BaseModel"] [("count", .name "int")]] [] ["query C {\n", "  count\n", "}\n"] [] [] }

/-- C15-F3: `query GetMe { me { id } }`, plugins = [ClientForwardRefs, ShorterResults] -/
def f3 : Input :=
  { plugins := [.fwd {}, .shorter {}],
    events := events "GetMe" "get_me" "GetMe"
      [cls "GetMeMe" ["BaseModel"] [("id", .name "str")],
       cls "GetMe" ["BaseModel"] [("me", .sub (.name "Optional") (.name "\"GetMeMe\""))]] []
      ["query GetMe {\n", "  me {\n", "    id\n", "  }\n", "}\n"] [] [] }

/-- the same input with the plugins the other way round -/
def f3swapped : Input := { f3 with plugins := [.shorter {}, .fwd {}] }

/-- C15-F4: `query Q { ...QF }  fragment QF on Query { when }` (custom scalar), plugins = [ShorterResults] -/
def f4 : Input :=
  { plugins := [.shorter {}],
    events := events "Q" "q" "Q" [cls "Q" ["QF"] []] [imp 1 "fragments" ["QF"]] ["query Q {\n", "  ...QF\n", "}\n"]
      [cls "QF" ["BaseModel"] [("when", .sub (.name "Optional") (.name "datetime"))]] [] }

/-- C15-F5: enable_custom_operations (the client class also has `execute_custom_operation`, which ends
    in `return self.get_data(response)`), plugins = [ClientForwardRefs] -/
def f5 : Input :=
  { plugins := [.fwd {}], customOps := true,
    events := events "GetMe" "get_me" "GetMe"
      [cls "GetMeMe" ["BaseModel"] [("id", .name "str")],
       cls "GetMe" ["BaseModel"] [("me", .sub (.name "Optional") (.name "\"GetMeMe\""))]] []
      ["query GetMe {\n", "  me {\n", "    id\n", "  }\n", "}\n"] []
      [.method { isAsync := true, name := "execute_custom_operation", args := [("self", none)],
                 rest := .other "arguments:*fields" [], decorators := 0,
                 returns := some (.sub (.name "Dict") (.tuple [.name "str", .name "Any"])),
                 body := [.simple (.ret (some (.call (.attr (.name "self") "get_data") [.name "response"] [] [])))] }] }

/-- C15-F6: an operation named `Operations`, plugins = [ExtractOperations] -/
def f6 : Input :=
  { plugins := [.extract {}],
    events := events "Operations" "operations" "Operations" [cls "Operations" ["BaseModel"] [("count", .name "int")]] []
      ["query Operations {\n", "  count\n", "}\n"] [] [] }

/-- C15-F8: `query Q { ...QF }  fragment QF on Query { me { id } }`, `fragments_module_name = "frags"` in the
    deprecated top-level `[ariadne-codegen]` section: the generator writes `frags.py`, ShorterResults (which looks
    under `[tool.ariadne-codegen]` only) believes in `fragments` -/
def f8 : Input :=
  { plugins := [.shorter {}], genFragmentsModule := "frags",
    events := events "Q" "q" "Q" [cls "Q" ["QF"] []] [imp 1 "frags" ["QF"]] ["query Q {\n", "  ...QF\n", "}\n"]
      [cls "QFMe" ["BaseModel"] [("id", .name "str")],
       cls "QF" ["BaseModel"] [("me", .sub (.name "Optional") (.name "\"QFMe\""))]] [] }

end W

/-! ## 7b. Every subset, every order, every multiplicity: what a chain of bundled plugins can do to the client module -/

/-- `plugin_chain_preserves_methods`.  The module `ClientGenerator.generate` assembles
    (`imports ++ [gql, class]`, `ClientInv`) goes through the plugin manager with ANY list of bundled
    plugins in ANY state.  If no hook raises, the result is again such a module (the class is still the
    first class, nothing is dropped), and every member of the class body is either untouched or a method
    with the same name which — when it had the generated shape `bodyOf s` — still has a generated shape
    `bodyOf s'` with the same operation source, operation name, variables expression, validated class and
    kind; projections are only appended (ShorterResults), in-body imports only prepended
    (ClientForwardRefs).  Together with §3 (`sem` of a projection), §4 (ExtractOperations, which acts
    on the method hook) and §5 (where the prepended import points) this is "same request, same accepted
    responses, apart from the documented change" at the level the plugins control. -/
theorem plugin_chain_preserves_methods (c : Call) (hc : c.hook = "generate_client_module")
    (ps ps' : List PState) (M : Module) (cls : ClassDef) (y : Payload) (hinv : ClientInv M cls)
    (h : manager c ps (.module M) = .ok (ps', y)) :
    ∃ M' cls', y = .module M' ∧ ClientInv M' cls' ∧ M'.firstClass? = some cls' ∧ cls'.name = cls.name ∧
      cls'.bases = cls.bases ∧ ItemsRel MethodPreserved cls.body cls'.body := by
  obtain ⟨M', cls', hy, hinv', hn, hb, hrel⟩ := chain_client_module c hc ps ps' M cls y hinv h
  exact ⟨M', cls', hy, hinv', firstClass_of_inv hinv', hn, hb,
    ItemsRel.mono (fun m m' hm => hm.preserved) hrel⟩

/-- non-vacuity: the client module of the witness input is of the assembled form -/
example : ClientInv
    { body := [.simple (.importFrom (W.imp 1 "async_base_client" ["AsyncBaseClient"])), .funcDef W.gqlFn,
               .classDef { name := "Client", bases := [.name "AsyncBaseClient"], keywords := 0,
                           body := [.method (W.method "c" "C" "C" ["query C {\n"])] }] }
    { name := "Client", bases := [.name "AsyncBaseClient"], keywords := 0,
      body := [.method (W.method "c" "C" "C" ["query C {\n"])] } :=
  ⟨[.simple (.importFrom (W.imp 1 "async_base_client" ["AsyncBaseClient"]))], W.gqlFn, rfl,
   fun t ht => by simp at ht; subst ht; rfl,
   ⟨.simple (.importFrom (W.imp 1 "async_base_client" ["AsyncBaseClient"])), by simp, rfl⟩⟩

/-- each witness is a valid input: the unplugged package is generated, loads, has the generated shape -/
theorem witnesses_valid :
    validB W.f7 = true ∧ validB W.f3 = true ∧ validB W.f3swapped = true ∧ validB W.f4 = true ∧ validB W.f5 = true ∧
    validB W.f6 = true ∧ validB W.f8 = true := by decide +kernel

/-- C15-F7 on the model: an `if TYPE_CHECKING:` without body, the module cannot be formatted -/
theorem finding_F7_on_model : loadsB W.f7.plugins W.f7 = false ∧ triggersOf W.f7 = ["fwdEmptyTypeChecking"] := by
  decide +kernel

/-- C15-F3 on the model: ForwardRefs first ⇒ no projection although `GetMe` has the single field `me`;
    the other order projects and loads -/
theorem finding_F3_on_model :
    projOKB W.f3.plugins W.f3 = false ∧ loadsB W.f3.plugins W.f3 = true ∧ triggersOf W.f3 = ["fwdBeforeShorter"] ∧
    projOKB W.f3swapped.plugins W.f3swapped = true ∧ loadsB W.f3swapped.plugins W.f3swapped = true ∧
    triggersOf W.f3swapped = [] := by decide +kernel

/-- C15-F4 on the model: the return annotation `Optional[datetime]` names a class the client module never imports -/
theorem finding_F4_on_model : loadsB W.f4.plugins W.f4 = false ∧ triggersOf W.f4 = ["shorterUnimportedName"] := by
  decide +kernel

/-- C15-F5 on the model: KeyError inside the hook -/
theorem finding_F5_on_model : (runWith W.f5.plugins W.f5).2 = some "KeyError" ∧ triggersOf W.f5 = ["fwdSelfCall"] := by
  decide +kernel

/-- C15-F6 on the model: the operations module and the result-types module of `Operations` are the same file -/
theorem finding_F6_on_model : loadsB W.f6.plugins W.f6 = false ∧ triggersOf W.f6 = ["opsModuleClash"] := by
  decide +kernel

/-- C15-F8 on the model: the client module imports `QFMe` from `.fragments`, the package has `frags.py`; with the
    option under `[tool.ariadne-codegen]` (the plugin then reads "frags" too) the same input loads -/
theorem finding_F8_on_model :
    loadsB W.f8.plugins W.f8 = false ∧ triggersOf W.f8 = ["shorterFragmentsModule"] ∧
    loadsB [.shorter { fragmentsModuleName := "frags" }] { W.f8 with plugins := [.shorter { fragmentsModuleName := "frags" }] } = true ∧
    triggersOf { W.f8 with plugins := [.shorter { fragmentsModuleName := "frags" }] } = [] := by
  decide +kernel

/-- The property as stated is false on the pinned tree. -/
theorem C15_full_false : ¬ C15_full := by
  intro h
  have h7 := (h W.f7 witnesses_valid.1).1
  rw [finding_F7_on_model.1] at h7
  cases h7

/-! ### what is proved of the whole-pipeline statement -/

/-- one decidable trigger per open finding (Model/PluginFindings.lean; Python twins in harness/c15.py) -/
def Supported_15 (x : Input) : Prop :=
  ¬ (trigFwdBeforeShorter x = true ∨ trigShorterUnimportedName x = true ∨ trigFwdSelfCall x = true ∨
     trigOpsModuleClash x = true ∨ trigFwdEmptyTypeChecking x = true ∨ trigShorterFragmentsModule x = true)

/-- the configured list without ShorterResults -/
def withoutShorter (ps : List PState) : List PState := ps.filter (fun p => !p.isShorter)

/-- the region in which the WHOLE-PIPELINE statement (`loadsB ∧ projOKB ∧ SameBehaviour` of `runPipeline`)
    is proved for lists WITHOUT ClientForwardRefs:

    * configurations made of the identity plugin and NoReimports only (any input), and
    * configurations made of ShorterResults, NoReimports and the identity plugin, in ANY order, on inputs whose
      unplugged generation has the form the generator produces — `genShapedS` (Model/PluginWhole.lean), a
      decidable conjunction of facts about the unplugged run: one `generate_client_module` call with nothing
      recorded after it, the client module is `imports ++ [def gql, class Client]`, the recorded result
      classes have acyclic bases and literal-evaluable annotations, every method with a single-field result
      class has the generated shape and a return annotation of the right kind, the unwrapped annotation only
      names classes the plugin knows how to import or names the module binds, no such class is called like a
      validated result class, and the modules recorded for them exist;
    * configurations made of ExtractOperations, NoReimports and the identity plugin, in ANY order, on inputs of
      the generator's form — `genShapedE` (Model/PluginWholeE.lean): one `generate_client_module` call, only the
      init hooks after it and `generate_init_module` among them, every operation string recorded once and before
      the method of its operation is handed over, that method has the generated shape and inlines exactly the lines
      of that string, distinct operations have distinct constants, no constant is called like a validated class.
    * configurations made of ShorterResults, ExtractOperations, NoReimports and the identity plugin — EVERY list
      without ClientForwardRefs — in ANY order: `genShapedE` of the list without ShorterResults, and `genShapedSR`
      (Model/PluginWholeSE.lean): the generation WITH that list hands ShorterResults a module of the generated form
      (as `genShapedS`, stated on the client module and operations module the other plugins produce; in addition no
      leaf class is called like an operation constant).  Proof: the statement for the list without ShorterResults,
      then `shorter_relative` — ShorterResults added anywhere in the list preserves it.
    The driver evaluates `genShapedS` / `genShapedE` / `genShapedSR` on every generated case (evidence: `proved-region`).

    Lists containing ClientForwardRefs: see `Proved_15` below. -/

def ProvedNoFwd_15 (x : Input) : Prop :=
  (∀ p ∈ x.plugins, p = PState.identity ∨ p = PState.noReimports) ∨
  ((∀ p ∈ x.plugins, p = PState.identity ∨ p = PState.noReimports ∨ p.isShorter = true) ∧ genShapedS x = true) ∨
  ((∀ p ∈ x.plugins, p = PState.identity ∨ p = PState.noReimports ∨ p.isExtract = true) ∧ genShapedE x = true) ∨
  ((∀ p ∈ x.plugins, p = PState.identity ∨ p = PState.noReimports ∨ p.isShorter = true ∨ p.isExtract = true) ∧
    genShapedE { x with plugins := withoutShorter x.plugins } = true ∧ genShapedSR (withoutShorter x.plugins) x = true)

/-- the region in which the WHOLE-PIPELINE statement is proved:

    * every list without ClientForwardRefs (`ProvedNoFwd_15`), and
    * every list `a ++ [ClientForwardRefs] ++ b` in which `b` — the plugins AFTER ClientForwardRefs — is made of
      ExtractOperations, NoReimports and the identity plugin (no ShorterResults after ClientForwardRefs; `a` is any
      list of the other plugins, in any order): the list `a ++ b` without ClientForwardRefs is in `ProvedNoFwd_15`,
      and `genShapedFR` (Model/PluginWholeF.lean): the module the plugins of `a` hand to ClientForwardRefs has the
      generated form — import statements without renaming in front of `def gql`, every method of the generated shape
      and validating a locally imported class, some signature naming a locally imported class (otherwise finding
      C15-F7), no name that stays evaluated at `def` time or inside a method is one of the names ClientForwardRefs
      takes out of the module-level imports (otherwise findings C15-F4 / C15-F6), and the module-level import of
      every validated class is the one ClientForwardRefs recorded.  Proof: the statement for `a ++ b`, then
      `fwd_relative` — ClientForwardRefs added there preserves it.

    NOT proved: lists in which ShorterResults comes after ClientForwardRefs (with a single-field method that is
    finding C15-F3; without one, ShorterResults walks methods whose annotations ClientForwardRefs has already quoted):
    there the kernel-checked statements are `plugin_chain_preserves_methods` (§7b) and the per-plugin theorems of
    §3–§7, the model is evaluated on every generated case and compared with what CPython did (correspondence), and the
    property is judged by the oracle. -/
def Proved_15 (x : Input) : Prop :=
  ProvedNoFwd_15 x ∨
  ∃ a b, splitAtFwd x.plugins = some (a, b) ∧
    (∀ p ∈ b, p = PState.identity ∨ p = PState.noReimports ∨ p.isExtract = true) ∧
    ProvedNoFwd_15 { x with plugins := a ++ b } ∧ genShapedFR x = true

/-- a list of distinct kinds made of ShorterResults, NoReimports and the identity plugin is inert, or
    `inert ++ [ShorterResults] ++ inert` -/
theorem quiet_decompose : ∀ (ps : List PState),
    (∀ p ∈ ps, p = PState.identity ∨ p = PState.noReimports ∨ p.isShorter = true) → distinct (ps.map PState.kind) = true →
    Inert ps ∨ ∃ a b st0, ps = a ++ PState.shorter st0 :: b ∧ Inert a ∧ Inert b := by
  intro ps
  induction ps with
  | nil => intro _ _; exact .inl (fun p hp => by cases hp)
  | cons p rest ih =>
    intro hq hd
    simp only [List.map_cons, distinct, Bool.and_eq_true, Bool.not_eq_true'] at hd
    obtain ⟨hnot, hdr⟩ := hd
    have hrestq : ∀ q ∈ rest, q = PState.identity ∨ q = PState.noReimports ∨ q.isShorter = true :=
      fun q hq' => hq q (by simp [hq'])
    rcases hq p (by simp) with rfl | rfl | hsh
    · rcases ih hrestq hdr with hin | ⟨a, b, st0, rfl, ha, hb⟩
      · exact .inl (fun q hq' => by rcases List.mem_cons.mp hq' with rfl | h; exact .inl rfl; exact hin q h)
      · exact .inr ⟨.identity :: a, b, st0, rfl,
          fun q hq' => by rcases List.mem_cons.mp hq' with rfl | h; exact .inl rfl; exact ha q h, hb⟩
    · rcases ih hrestq hdr with hin | ⟨a, b, st0, rfl, ha, hb⟩
      · exact .inl (fun q hq' => by rcases List.mem_cons.mp hq' with rfl | h; exact .inr rfl; exact hin q h)
      · exact .inr ⟨.noReimports :: a, b, st0, rfl,
          fun q hq' => by rcases List.mem_cons.mp hq' with rfl | h; exact .inr rfl; exact ha q h, hb⟩
    · cases p with
      | shorter st0 =>
        refine .inr ⟨[], rest, st0, rfl, (fun q hq' => by cases hq'), ?_⟩
        intro q hq'
        rcases hrestq q hq' with rfl | rfl | hs
        · exact .inl rfl
        · exact .inr rfl
        · exfalso
          cases q with
          | shorter s' =>
            have : (rest.map PState.kind).contains (PState.kind (.shorter st0)) = true := by
              rw [List.contains_iff_mem, List.mem_map]
              exact ⟨.shorter s', hq', rfl⟩
            rw [this] at hnot; cases hnot
          | _ => simp [PState.isShorter] at hs
      | _ => simp [PState.isShorter] at hsh


/-- a list of distinct kinds made of ExtractOperations, NoReimports and the identity plugin is inert, or
    `inert ++ [ExtractOperations] ++ inert` -/
theorem quiet_decompose_extract : ∀ (ps : List PState),
    (∀ p ∈ ps, p = PState.identity ∨ p = PState.noReimports ∨ p.isExtract = true) → distinct (ps.map PState.kind) = true →
    Inert ps ∨ ∃ a b e0, ps = a ++ PState.extract e0 :: b ∧ Inert a ∧ Inert b := by
  intro ps
  induction ps with
  | nil => intro _ _; exact .inl (fun p hp => by cases hp)
  | cons p rest ih =>
    intro hq hd
    simp only [List.map_cons, distinct, Bool.and_eq_true, Bool.not_eq_true'] at hd
    obtain ⟨hnot, hdr⟩ := hd
    have hrestq : ∀ q ∈ rest, q = PState.identity ∨ q = PState.noReimports ∨ q.isExtract = true :=
      fun q hq' => hq q (by simp [hq'])
    rcases hq p (by simp) with rfl | rfl | hsh
    · rcases ih hrestq hdr with hin | ⟨a, b, st0, rfl, ha, hb⟩
      · exact .inl (fun q hq' => by rcases List.mem_cons.mp hq' with rfl | h; exact .inl rfl; exact hin q h)
      · exact .inr ⟨.identity :: a, b, st0, rfl,
          (fun q hq' => by rcases List.mem_cons.mp hq' with rfl | h; exact .inl rfl; exact ha q h), hb⟩
    · rcases ih hrestq hdr with hin | ⟨a, b, st0, rfl, ha, hb⟩
      · exact .inl (fun q hq' => by rcases List.mem_cons.mp hq' with rfl | h; exact .inr rfl; exact hin q h)
      · exact .inr ⟨.noReimports :: a, b, st0, rfl,
          (fun q hq' => by rcases List.mem_cons.mp hq' with rfl | h; exact .inr rfl; exact ha q h), hb⟩
    · cases p with
      | extract st0 =>
        refine .inr ⟨[], rest, st0, rfl, (fun q hq' => by cases hq'), ?_⟩
        intro q hq'
        rcases hrestq q hq' with rfl | rfl | hs
        · exact .inl rfl
        · exact .inr rfl
        · exfalso
          cases q with
          | extract s' =>
            have : (rest.map PState.kind).contains (PState.kind (.extract st0)) = true := by
              rw [List.contains_iff_mem, List.mem_map]
              exact ⟨.extract s', hq', rfl⟩
            rw [this] at hnot; cases hnot
          | _ => simp [PState.isExtract] at hs
      | _ => simp [PState.isExtract] at hsh

theorem distinct_nodup : ∀ (l : List Nat), distinct l = true ↔ l.Nodup := by
  intro l
  induction l with
  | nil => simp [distinct]
  | cons k ks ih =>
    simp only [distinct, Bool.and_eq_true, Bool.not_eq_true', List.contains_eq_mem, decide_eq_false_iff_not, List.nodup_cons, ih]

theorem nosf_filter (l : List PState) (h : NoSF l) : withoutShorter l = l := by
  unfold withoutShorter
  rw [List.filter_eq_self]
  intro p hp
  rcases h p hp with rfl | rfl | ⟨e, rfl⟩ <;> simp [PState.isShorter]

theorem withoutShorter_split (a b : List PState) (st0 : ShorterState) (ha : NoSF a) (hb : NoSF b) :
    withoutShorter (a ++ .shorter st0 :: b) = a ++ b := by
  have h1 := nosf_filter a ha
  have h2 := nosf_filter b hb
  unfold withoutShorter at h1 h2 ⊢
  rw [List.filter_append, List.filter_cons, h1, h2]
  simp [PState.isShorter]

/-- a list of distinct kinds without ClientForwardRefs contains ShorterResults at most once -/
theorem decompose_se : ∀ (ps : List PState),
    (∀ p ∈ ps, p = PState.identity ∨ p = PState.noReimports ∨ p.isShorter = true ∨ p.isExtract = true) →
    distinct (ps.map PState.kind) = true →
    NoSF ps ∨ ∃ a b st0, ps = a ++ PState.shorter st0 :: b ∧ NoSF a ∧ NoSF b := by
  intro ps
  induction ps with
  | nil => intro _ _; exact .inl (fun p hp => by cases hp)
  | cons p rest ih =>
    intro hq hd
    simp only [List.map_cons, distinct, Bool.and_eq_true, Bool.not_eq_true'] at hd
    obtain ⟨hnot, hdr⟩ := hd
    have hrestq : ∀ q ∈ rest, q = PState.identity ∨ q = PState.noReimports ∨ q.isShorter = true ∨ q.isExtract = true :=
      fun q hq' => hq q (by simp [hq'])
    have hcons : ∀ {p0 : PState}, (p0 = PState.identity ∨ p0 = PState.noReimports ∨ ∃ e, p0 = PState.extract e) → ∀ {l : List PState}, NoSF l → NoSF (p0 :: l) := by
      intro p0 hp0 l hl q hq'
      rcases List.mem_cons.mp hq' with rfl | h
      · exact hp0
      · exact hl q h
    cases p with
    | shorter st0 =>
      refine .inr ⟨[], rest, st0, rfl, (fun q hq' => by cases hq'), ?_⟩
      intro q hq'
      rcases hrestq q hq' with rfl | rfl | hs | he
      · exact .inl rfl
      · exact .inr (.inl rfl)
      · exfalso
        cases q with
        | shorter s' =>
          have : (rest.map PState.kind).contains (PState.kind (.shorter st0)) = true := by
            rw [List.contains_iff_mem, List.mem_map]
            exact ⟨.shorter s', hq', rfl⟩
          rw [this] at hnot; cases hnot
        | _ => simp [PState.isShorter] at hs
      · cases q with
        | extract e => exact .inr (.inr ⟨e, rfl⟩)
        | _ => simp [PState.isExtract] at he
    | identity =>
      rcases ih hrestq hdr with hn | ⟨a, b, st0, rfl, ha, hb⟩
      · exact .inl (hcons (.inl rfl) hn)
      · exact .inr ⟨.identity :: a, b, st0, rfl, hcons (.inl rfl) ha, hb⟩
    | noReimports =>
      rcases ih hrestq hdr with hn | ⟨a, b, st0, rfl, ha, hb⟩
      · exact .inl (hcons (.inr (.inl rfl)) hn)
      · exact .inr ⟨.noReimports :: a, b, st0, rfl, hcons (.inr (.inl rfl)) ha, hb⟩
    | extract e =>
      rcases ih hrestq hdr with hn | ⟨a, b, st0, rfl, ha, hb⟩
      · exact .inl (hcons (.inr (.inr ⟨e, rfl⟩)) hn)
      · exact .inr ⟨.extract e :: a, b, st0, rfl, hcons (.inr (.inr ⟨e, rfl⟩)) ha, hb⟩
    | fwd s =>
      rcases hq (.fwd s) (by simp) with h | h | h | h <;> simp [PState.isShorter, PState.isExtract] at h

theorem inert_run (ps : List PState) (x : Input) (h : Inert ps) :
    (runWith ps x).2 = (runWith [] x).2 ∧ (runWith ps x).1.clientModule? = (runWith [] x).1.clientModule? ∧
    (runWith ps x).1.opsFile? = none ∧ (runWith [] x).1.opsFile? = none := by
  have hrel : InertRel { plugins := ps } { plugins := [] } :=
    ⟨h, rfl, rfl, rfl, rfl, rfl, rfl, fun _ _ => rfl⟩
  obtain ⟨herr, hin, hnil, _, _, _, _, _, hf⟩ := runPipeline_inert x.events _ _ hrel
  refine ⟨herr, ?_, inert_opsFile _ hin, inert_opsFile _ (by show Inert (runPipeline { plugins := [] } x.events).1.plugins; rw [hnil]; intro p hp; cases hp)⟩
  unfold PipeState.clientModule?
  rw [show (runWith ps x).1.finalOf "generate_client_module" = (runWith [] x).1.finalOf "generate_client_module" from
    hf "generate_client_module" (by decide)]

/-- configurations made of the identity plugin and NoReimports only, every valid input: the client module and the
    operations module are those of the unplugged generation, so everything is as without plugins -/
theorem C15_partial_inert (x : Input) (hv : validB x = true) (hp : ∀ p ∈ x.plugins, p = PState.identity ∨ p = PState.noReimports) :
    loadsB x.plugins x = true ∧ projOKB x.plugins x = true ∧ SameBehaviour x.plugins x := by
  have hin : Inert x.plugins := hp
  obtain ⟨h1, h2, h3, h4⟩ := inert_run x.plugins x hin
  obtain ⟨k1, k2, k3⟩ := inert_no_kind x.plugins hin
  simp only [validB, Bool.and_eq_true] at hv
  obtain ⟨⟨_, hl⟩, hproj⟩ := hv
  have hclash : trigOpsModuleClash { x with plugins := x.plugins } = trigOpsModuleClash { x with plugins := [] } := by
    unfold trigOpsModuleClash
    simp only [List.any_nil]
    rw [List.any_eq_false]
    intro p hp'
    rcases hin p hp' with rfl | rfl <;> simp
  have hfm : ∀ n, finalMethod x.plugins x n = finalMethod [] x n := by intro n; unfold finalMethod; rw [h2]
  have hfs : ∀ n, finalShape x.plugins x n = finalShape [] x n := by intro n; unfold finalShape; rw [hfm]
  have hexp : ∀ m, expectedProj x.plugins x m = expectedProj [] x m := by
    intro m; unfold expectedProj; simp [k1]
  have hpkg : pkgOf x.plugins x = pkgOf [] x := by unfold pkgOf; rw [h2, h3, h4]
  refine ⟨?_, ?_, ?_⟩
  · unfold loadsB at hl ⊢
    simp only [h1, h2, h3, hclash]
    simp only [h4] at hl
    exact hl
  · unfold projOKB at hproj ⊢
    simp only [hfs, hexp]
    exact hproj
  · intro m hm s0 hs0
    refine ⟨s0, by rw [hfs]; exact hs0, by rw [hpkg], ?_⟩
    intro PyV validate getattr d
    rw [hpkg, hexp]
    have : expectedProj [] x m = [] := by unfold expectedProj; simp
    rw [this]
    simp only [List.foldl_nil]
    exact (outcome_map_id _).symm

/-- the whole-pipeline statement for a list without ShorterResults and ClientForwardRefs -/
theorem nosf_lists_whole (x : Input) (hn : NoSF x.plugins) (hv : validB x = true) (hclash : trigOpsModuleClash x = false)
    (hg : x.plugins.any PState.isExtract = true → genShapedE x = true) :
    loadsB x.plugins x = true ∧ projOKB x.plugins x = true ∧ SameBehaviour x.plugins x := by
  have hcfg : configOK x.plugins = true := by
    simp only [validB, Bool.and_eq_true] at hv
    exact hv.1.1
  simp only [configOK, Bool.and_eq_true, List.all_eq_true] at hcfg
  have hq : ∀ p ∈ x.plugins, p = PState.identity ∨ p = PState.noReimports ∨ p.isExtract = true := by
    intro p hp
    rcases hn p hp with rfl | rfl | ⟨e, rfl⟩
    · exact .inl rfl
    · exact .inr (.inl rfl)
    · exact .inr (.inr rfl)
  rcases quiet_decompose_extract x.plugins hq hcfg.2 with hin | ⟨a, b, e0, hps, ha, hb⟩
  · exact C15_partial_inert x hv hin
  · have hany : x.plugins.any PState.isExtract = true := by rw [hps]; simp [PState.isExtract]
    exact extract_lists_whole x a b e0 hps ha hb (hcfg.1 _ (by rw [hps]; simp)) hv hclash (hg hany)

/-- the Bool the driver evaluates on every case is `Proved_15` -/
theorem onlyB_iff (ok : PState → Bool) (ps : List PState) :
    onlyB ok ps = true ↔ ∀ p ∈ ps, p = PState.identity ∨ p = PState.noReimports ∨ ok p = true := by
  unfold onlyB
  rw [List.all_eq_true]
  constructor
  · intro h p hp
    have := h p hp
    cases p <;> simp_all
  · intro h p hp
    have := h p hp
    cases p <;> simp_all

theorem provedNoFwdB_iff (x : Input) : provedNoFwdB x = true ↔ ProvedNoFwd_15 x := by
  unfold provedNoFwdB ProvedNoFwd_15 withoutShorter
  simp only [Bool.or_eq_true, Bool.and_eq_true, onlyB_iff, Bool.false_eq_true, or_false, and_assoc, or_assoc]

theorem proved15B_iff (x : Input) : proved15B x = true ↔ Proved_15 x := by
  unfold proved15B Proved_15
  rw [Bool.or_eq_true, provedNoFwdB_iff]
  apply or_congr Iff.rfl
  cases hsp : splitAtFwd x.plugins with
  | none => simp
  | some ab =>
    obtain ⟨a, b⟩ := ab
    simp only [Bool.and_eq_true, onlyB_iff, provedNoFwdB_iff, Option.some.injEq, Prod.mk.injEq]
    constructor
    · rintro ⟨⟨h1, h2⟩, h3⟩
      exact ⟨a, b, ⟨rfl, rfl⟩, h1, h2, h3⟩
    · rintro ⟨a', b', ⟨rfl, rfl⟩, h1, h2, h3⟩
      exact ⟨⟨h1, h2⟩, h3⟩

/-- the whole-pipeline statement for every list without ClientForwardRefs inside `ProvedNoFwd_15` -/
theorem C15_partial_nofwd (x : Input) (hv : validB x = true) (hclash : trigOpsModuleClash x = false) (hp : ProvedNoFwd_15 x) :
    loadsB x.plugins x = true ∧ projOKB x.plugins x = true ∧ SameBehaviour x.plugins x := by
  have hcfg : configOK x.plugins = true := by
    simp only [validB, Bool.and_eq_true] at hv
    exact hv.1.1
  simp only [configOK, Bool.and_eq_true, List.all_eq_true] at hcfg
  rcases hp with hin | ⟨hq, hg⟩ | ⟨hq, hg⟩ | ⟨hq, hgE, hgS⟩
  · exact C15_partial_inert x hv hin
  · rcases quiet_decompose x.plugins hq hcfg.2 with hin | ⟨a, b, st0, hps, ha, hb⟩
    · exact C15_partial_inert x hv hin
    · exact shorter_lists_whole x a b st0 hps ha hb (hcfg.1 _ (by rw [hps]; simp)) hv hg
  · rcases quiet_decompose_extract x.plugins hq hcfg.2 with hin | ⟨a, b, e0, hps, ha, hb⟩
    · exact C15_partial_inert x hv hin
    · exact extract_lists_whole x a b e0 hps ha hb (hcfg.1 _ (by rw [hps]; simp)) hv hclash hg
  · rcases decompose_se x.plugins hq hcfg.2 with hn | ⟨a, b, st0, hps, ha, hb⟩
    · -- no ShorterResults in the list
      have hw : withoutShorter x.plugins = x.plugins := nosf_filter _ hn
      rw [hw] at hgE
      exact nosf_lists_whole x hn hv hclash (fun _ => hgE)
    · -- the list without ShorterResults first, then ShorterResults on top
      have hw : withoutShorter x.plugins = a ++ b := by rw [hps]; exact withoutShorter_split a b st0 ha hb
      rw [hw] at hgE hgS
      have hnL : NoSF (a ++ b) := by
        intro p hp
        rcases List.mem_append.mp hp with h | h
        · exact ha p h
        · exact hb p h
      have hvL : validB { x with plugins := a ++ b } = true := by
        have hv' := hv
        simp only [validB, Bool.and_eq_true] at hv' ⊢
        refine ⟨⟨?_, hv'.1.2⟩, hv'.2⟩
        simp only [configOK, Bool.and_eq_true, List.all_eq_true]
        constructor
        · intro p hp
          apply hcfg.1 p
          rw [hps]
          rcases List.mem_append.mp hp with h | h
          · exact List.mem_append_left _ h
          · exact List.mem_append_right _ (List.mem_cons_of_mem _ h)
        · have hnd := (distinct_nodup _).mp hcfg.2
          rw [hps] at hnd
          rw [distinct_nodup]
          simp only [List.map_append, List.map_cons] at hnd ⊢
          exact hnd.sublist (List.Sublist.append_left (List.sublist_cons_self _ _) _)
      have hclashL : trigOpsModuleClash { x with plugins := a ++ b } = false := by
        have h2 := clash_insert_shorter x a b st0
        rw [← hps] at h2
        rw [← h2]
        exact hclash
      have hL := nosf_lists_whole { x with plugins := a ++ b } hnL hvL hclashL (fun _ => hgE)
      exact shorter_relative x a b st0 hps ha hb (hcfg.1 _ (by rw [hps]; simp)) hL hgS

/-- The whole-pipeline statement on `Supported_15 ∩ Proved_15` (see `Proved_15` for what is outside): for every
    valid input outside the finding triggers and every configuration made of ShorterResults, NoReimports and the
    identity plugin in any order, the generation does not raise, the package loads, every method is projected on
    exactly the single top-level field of its result class (inherited fragment fields included) or left alone,
    and sends the same request and handles every response as the unplugged method does, up to that projection;
    for every configuration made of ExtractOperations, NoReimports and the identity plugin in any order, the
    generation does not raise, the operations module is written and binds every constant to the lines the
    unplugged method inlines, the package loads, and every method sends the identical request and handles every
    response as without plugins; and for every configuration made of ShorterResults AND ExtractOperations (with or
    without NoReimports / the identity plugin) in any order — i.e. every configuration without ClientForwardRefs —
    both at once; and for every configuration `a ++ [ClientForwardRefs] ++ b` with no ShorterResults after
    ClientForwardRefs: all of the above for `a ++ b`, every method imports its validated class in its body, and still
    sends the identical request and handles every response in the same way. -/
theorem C15_partial (x : Input) (hv : validB x = true) (hs : Supported_15 x) (hp : Proved_15 x) :
    loadsB x.plugins x = true ∧ projOKB x.plugins x = true ∧ SameBehaviour x.plugins x := by
  have hcfg : configOK x.plugins = true := by
    simp only [validB, Bool.and_eq_true] at hv
    exact hv.1.1
  have hfresh : x.plugins.all PState.isFresh = true := by
    simp only [configOK, Bool.and_eq_true] at hcfg
    exact hcfg.1
  simp only [configOK, Bool.and_eq_true, List.all_eq_true] at hcfg
  have hclash : trigOpsModuleClash x = false := by
    cases hc : trigOpsModuleClash x with
    | false => rfl
    | true => exact absurd (.inr (.inr (.inr (.inl hc)))) hs
  rcases hp with hp | ⟨a, b, hsp, hb, hpL, hg⟩
  · exact C15_partial_nofwd x hv hclash hp
  · obtain ⟨f0, hps⟩ := splitAtFwd_spec _ _ _ hsp
    have hnb : NoSF b := by
      intro p hp
      rcases hb p hp with rfl | rfl | he
      · exact .inl rfl
      · exact .inr (.inl rfl)
      · cases p with
        | extract e => exact .inr (.inr ⟨e, rfl⟩)
        | _ => simp [PState.isExtract] at he
    have hvL : validB { x with plugins := a ++ b } = true := by
      have hv' := hv
      simp only [validB, Bool.and_eq_true] at hv' ⊢
      refine ⟨⟨?_, hv'.1.2⟩, hv'.2⟩
      simp only [configOK, Bool.and_eq_true, List.all_eq_true]
      constructor
      · intro p hp
        apply hcfg.1 p
        rw [hps]
        rcases List.mem_append.mp hp with h | h
        · exact List.mem_append_left _ h
        · exact List.mem_append_right _ (List.mem_cons_of_mem _ h)
      · have hnd := (distinct_nodup _).mp hcfg.2
        rw [hps] at hnd
        rw [distinct_nodup]
        simp only [List.map_append, List.map_cons] at hnd ⊢
        exact hnd.sublist (List.Sublist.append_left (List.sublist_cons_self _ _) _)
    have hclashL : trigOpsModuleClash { x with plugins := a ++ b } = false := by
      have h2 := clash_insert_fwd x a b f0
      rw [← hps] at h2
      rw [← h2]
      exact hclash
    have hL := C15_partial_nofwd { x with plugins := a ++ b } hvL hclashL hpL
    exact fwd_relative x a b hsp hnb hfresh hL hg

/-- non-vacuity of `C15_partial`: a valid, supported input with `[identity, NoReimports]` -/
example : validB { W.f3 with plugins := [.identity, .noReimports] } = true ∧
    Supported_15 { W.f3 with plugins := [.identity, .noReimports] } ∧
    Proved_15 { W.f3 with plugins := [.identity, .noReimports] } := by
  refine ⟨by decide +kernel, ?_, ?_⟩
  · unfold Supported_15; decide +kernel
  · left; left; intro p hp; simp at hp; rcases hp with rfl | rfl <;> simp

/-- non-vacuity of `C15_partial` with ShorterResults: `query GetMe { me { id } }` with
    `[identity, ShorterResults, NoReimports]` and with `[NoReimports, ShorterResults]`; the input with the root
    fragment of the C15-F8 witness under `[tool.ariadne-codegen]` (both sides agree on `frags`) -/
example : validB { W.f3 with plugins := [.identity, .shorter {}, .noReimports] } = true ∧
    Supported_15 { W.f3 with plugins := [.identity, .shorter {}, .noReimports] } ∧
    Proved_15 { W.f3 with plugins := [.identity, .shorter {}, .noReimports] } := by
  refine ⟨by decide +kernel, ?_, ?_⟩
  · unfold Supported_15; decide +kernel
  · left; right; left
    refine ⟨?_, by decide +kernel⟩
    intro p hp; simp at hp; rcases hp with rfl | rfl | rfl <;> simp [PState.isShorter]

/-- non-vacuity of `C15_partial` with ExtractOperations: `[NoReimports, ExtractOperations, identity]` -/
example : validB { W.f3 with plugins := [.noReimports, .extract {}, .identity] } = true ∧
    Supported_15 { W.f3 with plugins := [.noReimports, .extract {}, .identity] } ∧
    Proved_15 { W.f3 with plugins := [.noReimports, .extract {}, .identity] } := by
  refine ⟨by decide +kernel, ?_, ?_⟩
  · unfold Supported_15; decide +kernel
  · left; right; right; left
    refine ⟨?_, by decide +kernel⟩
    intro p hp; simp at hp; rcases hp with rfl | rfl | rfl <;> simp [PState.isExtract]

/-- non-vacuity of `C15_partial` with ShorterResults AND ExtractOperations, in both orders -/
example : validB { W.f3 with plugins := [.extract {}, .shorter {}, .noReimports] } = true ∧
    Supported_15 { W.f3 with plugins := [.extract {}, .shorter {}, .noReimports] } ∧
    Proved_15 { W.f3 with plugins := [.extract {}, .shorter {}, .noReimports] } := by
  refine ⟨by decide +kernel, ?_, ?_⟩
  · unfold Supported_15; decide +kernel
  · left; right; right; right
    refine ⟨?_, by decide +kernel, by decide +kernel⟩
    intro p hp; simp at hp; rcases hp with rfl | rfl | rfl <;> simp [PState.isShorter, PState.isExtract]

/-- non-vacuity of `C15_partial` with ClientForwardRefs: `[ShorterResults, ClientForwardRefs, ExtractOperations]` and
    `[ExtractOperations, ClientForwardRefs, NoReimports]` -/
example : validB { W.f3 with plugins := [.shorter {}, .fwd {}, .extract {}] } = true ∧
    Supported_15 { W.f3 with plugins := [.shorter {}, .fwd {}, .extract {}] } ∧
    Proved_15 { W.f3 with plugins := [.shorter {}, .fwd {}, .extract {}] } := by
  refine ⟨by decide +kernel, ?_, ?_⟩
  · unfold Supported_15; decide +kernel
  · rw [← proved15B_iff]; decide +kernel

example : validB { W.f3 with plugins := [.extract {}, .fwd {}, .noReimports] } = true ∧
    Supported_15 { W.f3 with plugins := [.extract {}, .fwd {}, .noReimports] } ∧
    Proved_15 { W.f3 with plugins := [.extract {}, .fwd {}, .noReimports] } := by
  refine ⟨by decide +kernel, ?_, ?_⟩
  · unfold Supported_15; decide +kernel
  · rw [← proved15B_iff]; decide +kernel

/-- outside: ShorterResults after ClientForwardRefs -/
example : proved15B { W.f3 with plugins := [.fwd {}, .shorter {}] } = false := by decide +kernel

example : Proved_15 { W.f3 with plugins := [.shorter {}, .identity, .extract {}] } := by
  left; right; right; right
  refine ⟨?_, by decide +kernel, by decide +kernel⟩
  intro p hp; simp at hp; rcases hp with rfl | rfl | rfl <;> simp [PState.isShorter, PState.isExtract]


example : genShapedS { W.f3 with plugins := [.noReimports, .shorter {}] } = true ∧
    genShapedS { W.f8 with plugins := [.shorter { fragmentsModuleName := "frags" }] } = true ∧
    genShapedS W.f8 = false ∧ genShapedS W.f4 = false := by decide +kernel

/-- non-vacuity of the shape hypotheses of §3–§5: the witness method has the generated shape, its result class
    `GetMe` has the single field `me`, and ShorterResults projects it -/
example : (W.method "get_me" "GetMe" "GetMe" ["query\n"]).body = bodyOf (W.shape "GetMe" "GetMe" ["query\n"]) := rfl

example : (singleFieldOf (shorterFacts "fragments" W.f3.events) (W.method "get_me" "GetMe" "GetMe" [])).map (·.1) = some "me" := by
  decide +kernel

/-- a single field inherited from a fragment class counts (`Q(QF)` with `QF.when`) -/
example : (singleFieldOf (shorterFacts "fragments" W.f4.events) (W.method "q" "Q" "Q" [])).map (·.1) = some "when" := by
  decide +kernel


/-! ## 10. Non-vacuity of the hypotheses used above (concrete instances; tests, not theorems) -/

section NonVacuity

def exLines : List String := ["query GetMe {\n", "  me {\n", "    id\n", "  }\n", "}\n"]
def exMethod : Method := W.method "get_me" "GetMe" "GetMe" exLines
def exShape : Shape := W.shape "GetMe" "GetMe" exLines

/-- §3/§4/§5: the method client.py builds has the generated shape, no in-body import, the operation inlined,
    at most one projection, a plain class name as return annotation -/
example : exMethod.body = bodyOf exShape ∧ exShape.imports = [] ∧ exShape.op = .inline "query" exLines ∧
    exShape.tail = .call true "response" "data" ∧ exShape.proj.length ≤ 1 ∧ exMethod.returns = some (.name "GetMe") :=
  ⟨rfl, rfl, rfl, rfl, by decide, rfl⟩

/-- §3: with the classes of the witness recorded, `GetMe` has exactly one field and the plugin's lookup succeeds -/
example : (match nodeAndClass (shorterFacts "fragments" W.f3.events).classDict "GetMe" with
    | .ok (some (_, classes, f)) => f == "me" && classes == ["GetMeMe"]
    | _ => false) = true := by decide +kernel

/-- §4: after `generate_operation_str` the constant is known and the kind/async hypotheses hold -/
example : alookup "GetMe" ({ vars := [("GetMe", gqlVarName "get_me")] } : ExtractState).vars = some "GET_ME_GQL" ∧
    ((none : Option String) ≠ some "subscription" ∧ ({} : ExtractState).asyncClient = true) := by decide +kernel

/-- §4: the whole ExtractOperations round on the witness: constant referenced, module written with the same lines -/
example : (match runWith [.extract {}] W.f3 with
    | (ps, none) =>
      (match ps.opsFile?, finalShape [.extract {}] W.f3 "get_me" with
       | some (name, f), some s =>
         name == "operations" && f.all == ["GET_ME_GQL"] && alookup "GET_ME_GQL" f.assigns == some exLines &&
         (match s.op with | .const c => c == "GET_ME_GQL" | _ => false)
       | _, _ => false)
    | _ => false) = true := by decide +kernel

/-- §5: ClientForwardRefs on the witness: the class is recorded under ".get_me" and imported in the body from there -/
example : (match finalShape [.fwd {}] W.f3 "get_me" with
    | some s => s.imports == [{ module := some ".get_me", names := [("GetMe", none)], level := 0 }] && s.proj == []
    | none => false) = true := by decide +kernel

/-- §6: NoReimports in the middle of a list: the init module that comes out is empty -/
example : (match manager { hook := "generate_init_module" } [.extract {}, .noReimports, .identity]
      (.module { body := [.simple (.importFrom (W.imp 1 "client" ["Client"])), .simple (.assignList "__all__" ["Client"])] }) with
    | .ok (_, .module m) => m.body.isEmpty
    | _ => false) = true := by decide +kernel

/-- §7/§7b: both orders on the same input — `[S, F]` projects and imports in the body, `[F, S]` only imports -/
example : ((finalShape [.shorter {}, .fwd {}] W.f3 "get_me").map (fun s => (s.proj, s.imports.length))) = some (["me"], 1) ∧
    ((finalShape [.fwd {}, .shorter {}] W.f3 "get_me").map (fun s => (s.proj, s.imports.length))) = some ([], 1) := by
  decide +kernel

/-- non-vacuity: two operations sharing a fragment on the root type, `query A { ...QF }` and
    `query B { ...QF count }` with `fragment QF on Query { me { id } }`, in both orders: `A` is projected on
    `me`, `B` is not, whichever comes first -/
example :
    let dict : List (String × ClassDef) :=
      [("A", { name := "A", bases := [.name "QF"], keywords := 0, body := [.stmt (.other "Pass:pass" [])] }),
       ("B", { name := "B", bases := [.name "QF"], keywords := 0, body := [.stmt (.annAssign (.name "count") (.name "int") none)] }),
       ("QF", { name := "QF", bases := [.name "BaseModel"], keywords := 0,
                body := [.stmt (.annAssign (.name "me") (.sub (.name "Optional") (.name "\"QFMe\"")) none)] })]
    let mk := fun (n c : String) => W.method n c c []
    let projOf' := fun (r : M (ShorterState × List ClassItem)) =>
      match r with
      | .ok (_, items) => items.filterMap (fun it => match it with
          | .method m => some (m.name, (shapeOf m).map (·.proj))
          | _ => none)
      | .error _ => []
    projOf' (mapMethodsM shorterModifyMethod { classDict := dict } [.method (mk "a" "A"), .method (mk "b" "B")]) =
      [("a", some ["me"]), ("b", some [])] ∧
    projOf' (mapMethodsM shorterModifyMethod { classDict := dict } [.method (mk "b" "B"), .method (mk "a" "A")]) =
      [("b", some []), ("a", some ["me"])] := by
  decide +kernel

end NonVacuity

end Ariadne.C15
