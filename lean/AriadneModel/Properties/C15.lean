/-
  C15 — Bundled plugins preserve client behaviour apart from their documented change.

  "For every input and every subset of the bundled plugins, the package still loads and each method
   sends the same request and accepts the same responses as without plugins. ShorterResults changes
   only the return value to exactly the single top-level field of the unplugged result,
   ExtractOperations moves the identical operation strings to a module the client imports,
   ClientForwardRefs defers imports without changing any annotation's meaning, NoReimports only empties
   __init__; a plugin overriding no hook changes no byte, and several plugins are applied to each hook
   in configuration order."

  Statements and final proofs.  Models: Model/Plugins.lean (plugin manager + the four bundled
  plugins on the Python-AST fragment Model/PyIR.lean), Model/PluginPipeline.lean (hook call sites of
  client.py / init_file.py), Model/ClientSem.lean (shape and denotation of a generated method),
  Model/PluginFindings.lean (finding triggers).  Lemmas: Proofs/C15.lean.

  Quantification: every hook call, every payload, every plugin list (any length, any order, any
  plugin state), every method of the shape client.py emits (`bodyOf s` for every `Shape`), every
  class dictionary, every response.  The whole-pipeline statement `C15_full` is false on the pinned
  tree (five witnesses, §7); `C15_partial` is what is proved of it, the per-plugin theorems of §3–§6
  hold without any restriction on the plugin list.
-/
import AriadneModel.Proofs.C15
import AriadneModel.Generated.Tables

set_option linter.unusedSimpArgs false
set_option linter.unusedVariables false

namespace Ariadne.C15
open Ariadne Ariadne.Py Ariadne.Plugins Ariadne.ClientSem

/-! ## 1. The plugin manager: hooks in configuration order (all lists, all hooks, any state type) -/

/-- `_apply_plugins_on_object` on `p :: ps` = the hook of `p` first, then the rest of the list on
    what `p` returned (and every plugin keeps the state its own hook produced). -/
theorem hooks_in_order {σ : Type} (step : Call → σ → Payload → M (σ × Payload)) (c : Call)
    (p : σ) (ps : List σ) (x : Payload) :
    applyAll step c (p :: ps) x =
      (step c p x >>= fun r => applyAll step c ps r.2 >>= fun r' => pure (r.1 :: r'.1, r'.2)) :=
  applyAll_cons step c p ps x

theorem hooks_in_order_nil {σ : Type} (step : Call → σ → Payload → M (σ × Payload)) (c : Call) (x : Payload) :
    applyAll step c [] x = pure ([], x) := rfl

/-- Splitting the configured list anywhere: the second part sees what the first part returned. -/
theorem hooks_in_order_append {σ : Type} (step : Call → σ → Payload → M (σ × Payload)) (c : Call)
    (ps qs : List σ) (x : Payload) :
    applyAll step c (ps ++ qs) x =
      (applyAll step c ps x >>= fun r => applyAll step c qs r.2 >>= fun r' => pure (r.1 ++ r'.1, r'.2)) :=
  applyAll_append step c ps qs x

/-! ## 2. A plugin overriding no hook changes nothing -/

/-- alone, for every hook and every object -/
theorem identity_plugin_noop (c : Call) (x : Payload) : manager c [.identity] x = pure ([.identity], x) := rfl

/-- anywhere in any list of plugins (any state type): the other plugins see and return exactly
    what they see and return without it, for every hook -/
theorem identity_plugin_noop_anywhere {σ : Type} (step : Call → σ → Payload → M (σ × Payload)) (idp : σ)
    (hid : ∀ c x, step c idp x = .ok (idp, x)) (c : Call) (a b : List σ) (x : Payload) :
    applyAll step c (a ++ idp :: b) x =
      (applyAll step c a x >>= fun ra => applyAll step c b ra.2 >>= fun rb => pure (ra.1 ++ idp :: rb.1, rb.2)) ∧
    applyAll step c (a ++ b) x =
      (applyAll step c a x >>= fun ra => applyAll step c b ra.2 >>= fun rb => pure (ra.1 ++ rb.1, rb.2)) :=
  ⟨applyAll_insert step idp hid c a b x, applyAll_append step c a b x⟩

/-- a whole generation: with the identity plugin inserted anywhere among any bundled plugins, every
    hook call is handed and returns the same objects (so every emitted file has the same bytes), and
    the generation fails iff it failed without it, with the same exception -/
theorem identity_plugin_noop_pipeline (a b : List PState) (evs : List Event) :
    (runPipeline { plugins := a ++ .identity :: b } evs).1.trace = (runPipeline { plugins := a ++ b } evs).1.trace ∧
    (runPipeline { plugins := a ++ .identity :: b } evs).2 = (runPipeline { plugins := a ++ b } evs).2 := by
  have h := runPipeline_rel evs { plugins := a ++ .identity :: b } { plugins := a ++ b }
    ⟨⟨a, b, rfl, rfl⟩, rfl, rfl, rfl, rfl, rfl, rfl⟩
  exact ⟨h.2.2.2.2.2.2.2, h.1⟩

/-! ## 3. ShorterResults is exactly the projection on the single top-level field -/

/-- "the result class has exactly one field `f`" as the plugin decides it: the class is known, the
    fields collected through the recorded base classes (fragments included) are exactly one
    `f: <ann>`, and the annotation unwraps to `node` -/
theorem shorter_single_field_iff (dict : List (String × ClassDef)) (cls : String) (node : Ex) (classes : List String)
    (f : String) :
    nodeAndClass dict cls = .ok (some (node, classes, f)) ↔
      ∃ cd ann, alookup cls dict = some cd ∧
        getAllFields dict (dict.length + 1) cd = .ok [(.name f, ann)] ∧
        updateNode (ann.size + 1) ann = .ok (node, classes) :=
  nodeAndClass_some dict cls node classes f

/-- query / mutation methods of the shape client.py emits (async or sync), any plugin state:
    single field `f` ⇒ the method becomes the same body with `.f` behind `model_validate` and the
    unwrapped annotation; otherwise the method is returned unchanged; an exception of the lookup
    (`RecursionError` on cyclic bases, unmodelled literal) propagates. -/
theorem shorter_is_projection_method (st : ShorterState) (m : Method) (s : Shape) (aw : Bool) (r d cls : String)
    (hb : m.body = bodyOf s) (ht : s.tail = .call aw r d) (hr : m.returns = some (.name cls)) :
    shorterModifyMethod st m =
      (nodeAndClass st.classDict cls >>= fun x =>
        match x with
        | none => pure (st, m)
        | some (node, classes, f) =>
          pure (shorterUpdateImports st m.name classes,
            { m with returns := some node, body := bodyOf (shorterShape s f) })) :=
  shorter_call st m s aw r d cls hb ht hr

/-- subscriptions: `yield C.model_validate(data).f`, `AsyncIterator[<unwrapped>]` -/
theorem shorter_is_projection_subscription (st : ShorterState) (m : Method) (s : Shape) (d cls : String) (o : Nat) (a : Ex)
    (hb : m.body = bodyOf s) (ht : s.tail = .sub d true o) (hr : m.returns = some (.sub a (.name cls))) :
    shorterModifyMethod st m =
      (nodeAndClass st.classDict cls >>= fun x =>
        match x with
        | none => pure (st, m)
        | some (node, classes, f) =>
          pure (shorterUpdateImports st m.name classes,
            { m with returns := some (.sub (.name "AsyncIterator") node), body := bodyOf (shorterShape s f) })) :=
  shorter_sub st m s d cls o a hb ht hr

/-- the denotation: the rewritten method sends the same request and returns `getattr f` of what the
    original returns — same acceptance, same rejection (`sem (SR m) = (req m, proj f ∘ ret m)`), in
    every package, for every response, whatever pydantic and `getattr` are -/
theorem shorter_is_projection {PyV : Type} (validate : String × String → J → Except String PyV)
    (getattr : String → PyV → PyV) (pkg : Pkg) (s : Shape) (f : String) :
    (sem validate getattr pkg (shorterShape s f)).1 = (sem validate getattr pkg s).1 ∧
    ∀ d, (sem validate getattr pkg (shorterShape s f)).2 d = ((sem validate getattr pkg s).2 d).map (getattr f) :=
  ⟨request_shorterShape pkg s f, fun d => respond_shorterShape validate getattr pkg s f d⟩

/-- "unchanged otherwise", the part that depends on the annotation: a return annotation that is not
    a plain class name is never touched -/
theorem shorter_unchanged_without_class_annotation (st : ShorterState) (m : Method) (s : Shape) (aw : Bool) (r d : String)
    (hb : m.body = bodyOf s) (ht : s.tail = .call aw r d) (hr : ∀ id, m.returns ≠ some (.name id)) :
    shorterModifyMethod st m = pure (st, m) :=
  shorter_skips_non_name st m s aw r d hb ht hr

/-! ## 4. ExtractOperations: the same strings, in a module the client imports -/

/-- bookkeeping of `generate_operation_str`: the string is stored under the operation name and the
    constant is `<SNAKE>_GQL`; the string itself is returned unchanged -/
theorem extract_records_string (st : ExtractState) (c : Call) (s op snake : String)
    (hn : c.opName = some op) (hs : c.opSnake = some snake) :
    extractStep { c with hook := "generate_operation_str" } st (.str s) =
      .ok ({ st with gqls := aset op s st.gqls, vars := aset op (gqlVarName snake) st.vars }, .str s) := by
  simp [extractStep, extract_opStr st { c with hook := "generate_operation_str" } s op snake hn hs, bind_ok, pure_eq_ok]

/-- each method references its own constant, and nothing else of the method changes -/
theorem extract_method_references_own_constant (st : ExtractState) (c : Call) (m : Method) (s : Shape) (q : String)
    (ls : List String) (op v : String)
    (hb : m.body = bodyOf s) (hi : s.imports = []) (ho : s.op = .inline q ls)
    (hn : c.opName = some op) (hv : alookup op st.vars = some v)
    (hk : match s.tail with
          | .call aw _ _ => c.opKind ≠ some "subscription" ∧ st.asyncClient = aw
          | .sub _ _ _ => c.opKind = some "subscription") :
    extractClientMethod st c m = .ok { m with body := bodyOf { s with op := .const v } } :=
  extract_method st c m s q ls op v hb hi ho hn hv hk

/-- the written module binds the constant of every recorded operation to exactly
    `[l + "\n" for l in operation_str.splitlines()]` — the expression client.py inlines -/
theorem extract_module_binds_same_lines (st : ExtractState) (f : OpsFile) (h : extractOpsFile st = .ok f)
    (op g : String) (hg : (op, g) ∈ st.gqls) :
    ∃ v, alookup op st.vars = some v ∧ (v, pyLines g) ∈ f.assigns :=
  extract_opsFile_binds st f h op g hg

/-- `extract_same_strings`: a method whose inlined lines are the lines of the recorded string
    (what `_generate_operation_str_assign` builds) sends, after extraction, the identical query text,
    operation name and variables — provided the client module binds `gql` before and imports the
    constant from the written module after (both are what `generate_client_module` arranges) -/
theorem extract_same_strings (pkgU pkgP : Pkg) (s : Shape) (q g v opsName : String) (f : OpsFile)
    (ho : s.op = .inline q (pyLines g))
    (hgql : (moduleNames pkgU.client).contains "gql" = true)
    (hops : pkgP.ops = some (opsName, f))
    (himp : resolveRuntime pkgP { s with op := .const v } v = some ("." ++ opsName, v))
    (hbind : alookup v f.assigns = some (pyLines g)) :
    request pkgP { s with op := .const v } = request pkgU s := by
  have hg : "gql" ∈ moduleNames pkgU.client := by simpa using hgql
  unfold request constValue
  simp [ho, hg, hops, himp, hbind]

/-! ## 5. ClientForwardRefs: every call-time name stays bound, every annotation keeps its meaning -/

/-- the validated class is imported at the top of the body from the module recorded for it, the
    rest of the body is untouched (methods with at most one projection, i.e. also after
    ShorterResults) -/
theorem forwardrefs_imports_in_body (st : FwdState) (m : Method) (s : Shape) (src : String)
    (hb : m.body = bodyOf s) (hp : s.proj.length ≤ 1) (hc : alookup s.retClass st.importedClasses = some src) :
    fwdMethod st m = .ok
      ({ st with inputAndReturnTypes := (fwdSignature st m).2.2,
                 importedInMethod := sadd s.retClass st.importedInMethod },
       { m with args := (fwdSignature st m).1, returns := (fwdSignature st m).2.1,
                body := bodyOf (withImport s { module := some src, names := [(s.retClass, none)], level := 0 }) }) :=
  fwd_method st m s src hb hp hc

/-- `forwardrefs_runtime_names`: in the rewritten method the validated class resolves — through the
    in-body import — to (the dotted module text recorded by `_store_imported_classes`, the class):
    the qualified name the removed module-level `from .<module> import <class>` denoted.  (With the
    import levels of the code before commit 0603080 the module text would carry one dot too many.) -/
theorem forwardrefs_runtime_names (pkg : Pkg) (s : Shape) (src : String) :
    resolveRuntime pkg (withImport s { module := some src, names := [(s.retClass, none)], level := 0 }) s.retClass =
      some (src, s.retClass) := by
  simp [resolveRuntime, withImport, importBindings, alookup, dotted]

/-- the request of the rewritten method is the request of the original one -/
theorem forwardrefs_same_request (pkg : Pkg) (s : Shape) (i : ImportFrom) (hop : ∀ c, s.op ≠ .const c) :
    request pkg (withImport s i) = request pkg s := by
  unfold request withImport
  cases h : s.op with
  | inline q ls => rfl
  | const c => exact absurd h (hop c)

/-- annotations: the rewritten annotation is the original with some names quoted … -/
theorem forwardrefs_annotations_same_text (classes : List (String × String)) (e : Ex) (s : List String) :
    unconst (toConst classes e s).1 = unconst e :=
  toConst_unconst classes e s

/-- … only locally imported classes are quoted … -/
theorem forwardrefs_quotes_only_imported (classes : List (String × String)) (e : Ex) (s : List String) (n : String)
    (h : n ∈ (toConst classes e s).2) : n ∈ s ∨ ahas n classes = true :=
  toConst_set classes e s n h

/-- … and every quoted class is imported under `if TYPE_CHECKING:` from the module recorded for it -/
theorem forwardrefs_typechecking_imports (st : FwdState) (groups : List (String × List String))
    (h : fwdTypeCheckingImports st = .ok groups) (cls : String) (hc : cls ∈ st.inputAndReturnTypes) :
    ∃ src names, alookup cls st.importedClasses = some src ∧ alookup src groups = some names ∧ cls ∈ names :=
  fwd_typechecking_complete st groups h cls hc

/-- where the in-body import points: if every local import statement of the module that mentions the
    class names the module text `src` (and one does), then `src` is what `_store_imported_classes`
    records, hence (`forwardrefs_imports_in_body`, `forwardrefs_runtime_names`) what the method imports from -/
theorem forwardrefs_records_import_source (n src : String) (body : List Top) (st : FwdState)
    (hall : ∀ t ∈ body, storeTarget n t = none ∨ storeTarget n t = some src)
    (hex : ∃ t ∈ body, storeTarget n t = some src) :
    alookup n (fwdStoreImported st body).importedClasses = some src :=
  fwd_store_records n src body st hall (.inr hex)

/-- `from .get_me import GetMe` (module "get_me", level 1) is recorded as ".get_me" — the same qualified
    module the unplugged module-level import binds `GetMe` to -/
example :
    storeTarget "GetMe" (.simple (.importFrom { module := some "get_me", names := [("GetMe", none)], level := 1 })) = some ".get_me" ∧
    importBindings [{ module := some "get_me", names := [("GetMe", none)], level := 1 }] = [("GetMe", (".get_me", "GetMe"))] ∧
    importBindings [{ module := some ".get_me", names := [("GetMe", none)], level := 0 }] = [("GetMe", (".get_me", "GetMe"))] := by
  decide +kernel

/-- a validated "class" that no local import provides kills the generation (finding C15-F5) -/
theorem forwardrefs_keyerror (st : FwdState) (m : Method) (last : Stmt) (cls : String)
    (hl : m.body.getLast? = some last) (hi : fwdImportClass last = some cls)
    (hc : alookup cls st.importedClasses = none) : fwdMethod st m = .error "KeyError" :=
  fwd_method_keyerror st m last cls hl hi hc

/-! ## 6. NoReimports only empties `__init__` -/

/-- every other hook returns its argument -/
theorem noreimports_other_hooks_identity (c : Call) (x : Payload) (h : c.hook ≠ "generate_init_module") :
    PState.step c .noReimports x = .ok (.noReimports, x) := by
  simp [PState.step, noReimports_other_hooks c x h, pure_eq_ok]

/-- `noreimports_only_init`: wherever NoReimports stands in the list, the init module that leaves the
    plugin manager is empty (no later bundled plugin puts anything back) -/
theorem noreimports_only_init (c : Call) (hc : c.hook = "generate_init_module") (a b l : List PState) (m : Module) (y : Payload)
    (h : manager c (a ++ .noReimports :: b) (.module m) = .ok (l, y)) : y = .module { body := [] } := by
  unfold manager at h
  rw [applyAll_append] at h
  cases ha : applyAll PState.step c a (.module m) with
  | error e => rw [ha] at h; cases h
  | ok ra =>
    rw [ha] at h
    simp only [bind_ok] at h
    rw [applyAll_cons] at h
    have hN : PState.step c .noReimports ra.2 = .ok (.noReimports, noReimportsStep c ra.2) := rfl
    rw [hN] at h
    simp only [bind_ok] at h
    obtain ⟨m', hm'⟩ := applyAll_keeps_module c a ra.1 m ra.2 (by rw [ha])
    have hemp : noReimportsStep c ra.2 = .module { body := [] } := by rw [hm']; simp [noReimportsStep, hc]
    rw [hemp] at h
    cases hb : applyAll PState.step c b (.module { body := [] }) with
    | error e => rw [hb] at h; cases h
    | ok rb =>
      rw [hb] at h
      simp only [bind_ok, pure_eq_ok, Except.ok.injEq, Prod.mk.injEq] at h
      rw [← h.2]
      exact empty_init_through_list c hc b rb.1 rb.2 hb


/-! ## 7. Configuration order matters for exactly one pair (finding C15-F3) -/

/-- `[ClientForwardRefs, ShorterResults]`: what ClientForwardRefs leaves of a method (return
    annotation quoted) is skipped by ShorterResults whatever the result class looks like — the
    documented shortening silently does not happen, while `[ShorterResults, ClientForwardRefs]`
    shortens (§3) and then defers the imports (§5, `proj.length ≤ 1`). -/
theorem shorter_after_forwardrefs_noop (stF : FwdState) (stS : ShorterState) (m : Method) (s : Shape) (aw : Bool)
    (r d cls src : String)
    (hb : m.body = bodyOf s) (ht : s.tail = .call aw r d) (hp : s.proj.length ≤ 1)
    (hr : m.returns = some (.name cls)) (hcls : ahas cls stF.importedClasses = true)
    (hc : alookup s.retClass stF.importedClasses = some src) :
    ∃ stF' m', fwdMethod stF m = .ok (stF', m') ∧ shorterModifyMethod stS m' = .ok (stS, m') :=
  shorter_after_fwd_method stF stS m s aw r d cls src hb ht hp hr hcls hc

/-! ## 8. The model reacts to exactly the hooks the source overrides (regenerated tables) -/

/-- split a comma separated table entry -/
def splitCommaAux : List Char → List Char → List String
  | [], cur => [String.ofList cur.reverse]
  | c :: rest, cur => if c == ',' then String.ofList cur.reverse :: splitCommaAux rest [] else splitCommaAux rest (c :: cur)

def splitComma (s : String) : List String := if s == "" then [] else splitCommaAux s.toList []

def overridesOf (plugin : String) : List String :=
  match Ariadne.Tables.pluginOverrides.find? (fun kv => kv.1 == plugin) with
  | some kv => splitComma kv.2
  | none => []

theorem table_noreimports_overrides : overridesOf "NoReimportsPlugin" = ["generate_init_module"] := by decide +kernel
theorem table_forwardrefs_overrides : overridesOf "ClientForwardRefsPlugin" = ["generate_client_module"] := by decide +kernel
theorem table_extract_overrides : overridesOf "ExtractOperationsPlugin" =
    ["generate_client_method", "generate_client_module", "generate_init_module", "generate_operation_str"] := by decide +kernel
theorem table_shorter_overrides : overridesOf "ShorterResultsPlugin" =
    ["generate_client_module", "generate_fragments_module", "generate_result_class", "generate_result_types_module"] := by decide +kernel
/-- every overridden hook is a hook of `plugins.base.Plugin` -/
theorem table_overrides_are_hooks :
    (Ariadne.Tables.pluginOverrides.all fun kv => (splitComma kv.2).all Ariadne.Tables.pluginHooks.contains) = true := by
  decide +kernel

/-- the model of each bundled plugin returns its argument (and keeps its state) on every hook the
    source class does not override -/
theorem model_ignores_other_hooks_fwd (c : Call) (st : FwdState) (x : Payload)
    (h : c.hook ∉ overridesOf "ClientForwardRefsPlugin") : fwdStep c st x = .ok (st, x) := by
  rw [table_forwardrefs_overrides] at h
  unfold fwdStep
  split <;> simp_all [pure_eq_ok]

theorem model_ignores_other_hooks_noreimports (c : Call) (x : Payload)
    (h : c.hook ∉ overridesOf "NoReimportsPlugin") : noReimportsStep c x = x := by
  rw [table_noreimports_overrides] at h
  exact noReimports_other_hooks c x (by simpa using h)

theorem model_ignores_other_hooks_extract (c : Call) (st : ExtractState) (x : Payload)
    (h : c.hook ∉ overridesOf "ExtractOperationsPlugin") : extractStep c st x = .ok (st, x) := by
  rw [table_extract_overrides] at h
  unfold extractStep
  split <;> simp_all [pure_eq_ok]

theorem model_ignores_other_hooks_shorter (c : Call) (st : ShorterState) (x : Payload)
    (h : c.hook ∉ overridesOf "ShorterResultsPlugin") : shorterStep c st x = .ok (st, x) := by
  rw [table_shorter_overrides] at h
  unfold shorterStep
  split <;> simp_all [pure_eq_ok]

/-! ## 9. The whole property on the pipeline model: false in general, proved outside the findings -/

def PState.isFresh : PState → Bool
  | .shorter s => s.classDict.isEmpty && s.extendedImports.isEmpty && s.importedTypes.isEmpty
  | .extract s => s.gqls.isEmpty && s.vars.isEmpty && s.written.isNone
  | .fwd s => s.inputAndReturnTypes.isEmpty && s.importedClasses.isEmpty && s.importedInMethod.isEmpty
  | _ => true

def PState.kind : PState → Nat
  | .shorter _ => 0 | .extract _ => 1 | .fwd _ => 2 | .noReimports => 3 | .identity => 4

def distinct : List Nat → Bool
  | [] => true
  | k :: ks => !ks.contains k && distinct ks

/-- a configuration of the property's quantifier: an ordered subset of the five plugins, freshly constructed -/
def configOK (ps : List PState) : Bool := ps.all PState.isFresh && distinct (ps.map PState.kind)

/-- black refuses a module with an `if` without body -/
def formatOkB (m : Module) : Bool := m.body.all (fun t => match t with | .ifStmt _ [] _ => false | _ => true)

def runWith (ps : List PState) (x : Input) : PipeState × Option Err := runPipeline { plugins := ps } x.events

/-- "the package is generated and loads" on the model -/
def loadsB (ps : List PState) (x : Input) : Bool :=
  let r := runWith ps x
  r.2.isNone &&
  (match r.1.clientModule? with
   | some m => formatOkB m && annScopedB m && wellScopedB { client := m, ops := r.1.opsFile? }
   | none => false) &&
  !trigOpsModuleClash { x with plugins := ps }          -- no generated module is overwritten

def finalMethod (ps : List PState) (x : Input) (name : String) : Option Method :=
  match (runWith ps x).1.clientModule? with
  | some m => (m.firstClass?.map ClassDef.methods).getD [] |>.find? (fun md => md.name == name)
  | none => none

def finalShape (ps : List PState) (x : Input) (name : String) : Option Shape := (finalMethod ps x name).bind shapeOf

/-- the projection the property prescribes for a method: the single top-level field when
    ShorterResults is configured, nothing otherwise -/
def expectedProj (ps : List PState) (x : Input) (m : Method) : List String :=
  if ps.any PState.isShorter then
    match singleFieldOf (shorterFacts (fragmentsModuleNameOf ps) x.events) m with
    | some (f, _) => [f]
    | none => []
  else []

def projOKB (ps : List PState) (x : Input) : Bool :=
  (baseMethods x.events).all (fun m =>
    match finalShape ps x m.name with
    | some s => s.proj == expectedProj ps x m
    | none => false)

def pkgOf (ps : List PState) (x : Input) : Pkg :=
  { client := ((runWith ps x).1.clientModule?).getD { body := [] }, ops := (runWith ps x).1.opsFile? }

/-- same request, same acceptance, same value up to the prescribed projection — for every response -/
def SameBehaviour (ps : List PState) (x : Input) : Prop :=
  ∀ m ∈ baseMethods x.events, ∀ s0, finalShape [] x m.name = some s0 →
    ∃ s, finalShape ps x m.name = some s ∧
      request (pkgOf ps x) s = request (pkgOf [] x) s0 ∧
      ∀ (PyV : Type) (validate : String × String → J → Except String PyV) (getattr : String → PyV → PyV) (d : J),
        respond validate getattr (pkgOf ps x) s d =
          (respond validate getattr (pkgOf [] x) s0 d).map (fun o => (expectedProj ps x m).foldl (fun o f => getattr f o) o)

/-- a valid input: the unplugged generation succeeds, loads, and its methods have the generated shape -/
def validB (x : Input) : Bool :=
  configOK x.plugins && loadsB [] x && projOKB [] x

/-- the property at full strength, for every valid input and every configuration -/
def C15_full : Prop :=
  ∀ x : Input, validB x = true → loadsB x.plugins x = true ∧ projOKB x.plugins x = true ∧ SameBehaviour x.plugins x

/-! ### witnesses (the models of the replayed corpus entries corpus/C15/*.json) -/

namespace W

def shape (cls opName : String) (lines : List String) : Shape :=
  { imports := [], op := .inline "query" lines, opName := opName, varsVar := "variables",
    varsAnn := .sub (.name "Dict") (.tuple [.name "str", .name "object"]), variables := .other "Dict:{}" [],
    kwargs := .name "kwargs", tail := .call true "response" "data", retClass := cls, proj := [] }

def method (name cls opName : String) (lines : List String) : Method :=
  { isAsync := true, name := name, args := [("self", none)], rest := .other "arguments:**kwargs: Any" ["Any"],
    decorators := 0, returns := some (.name cls), body := bodyOf (shape cls opName lines) }

def imp (level : Nat) (m : String) (ns : List String) : ImportFrom := { module := some m, names := ns.map (·, none), level := level }
def ev (hook : String) (p : Payload) : Event := { call := { hook := hook, caller := some "ClientGenerator" }, payload := p }
def evOp (hook op snake : String) (p : Payload) : Event :=
  { call := { hook := hook, opName := some op, opKind := some "query", opSnake := some snake, caller := some "ClientGenerator" },
    payload := p }

def gqlFn : Method :=
  { isAsync := false, name := "gql", args := [("q", some (.name "str"))], rest := .other "arguments:" [],
    decorators := 0, returns := some (.name "str"), body := [.simple (.ret (some (.name "q")))] }

def cls (name : String) (bases : List String) (fields : List (String × Ex)) : ClassDef :=
  { name := name, bases := bases.map Ex.name, keywords := 0,
    body := if fields.isEmpty then [.stmt (.other "Pass:pass" [])] else fields.map (fun f => .stmt (.annAssign (.name f.1) f.2 none)) }

def resultModule (classes : List ClassDef) (extra : List ImportFrom) : Module :=
  { body := [.simple (.importFrom (imp 0 "typing" ["Any", "List", "Optional"])), .simple (.importFrom (imp 1 "base_model" ["BaseModel"]))] ++
      extra.map (fun i => Top.simple (.importFrom i)) ++ classes.map Top.classDef }

/-- the hook calls of an unplugged generation with one operation -/
def events (op snake clsName : String) (classes : List ClassDef) (extraImports : List ImportFrom) (lines : List String)
    (fragments : List ClassDef) (extraMethods : List ClassItem) : List Event :=
  [ ev "generate_client_import" (.imp (imp 0 "typing" ["Optional", "List", "Dict", "Any", "Union", "AsyncIterator"])),
    ev "generate_client_import" (.imp (imp 1 "async_base_client" ["AsyncBaseClient"])),
    ev "generate_client_import" (.imp (imp 1 "base_model" ["UNSET", "UnsetType"])) ] ++
  classes.map (fun c => evOp "generate_result_class" op snake (.klass c)) ++
  [ evOp "generate_result_types_module" op snake (.module (resultModule classes extraImports)),
    evOp "generate_operation_str" op snake (.str (String.join lines)),
    evOp "generate_client_method" op snake (.method (method snake clsName op lines)),
    ev "generate_client_import" (.imp (imp 1 snake [clsName])) ] ++
  fragments.map (fun c => ev "generate_result_class" (.klass c)) ++
  (if fragments.isEmpty then [] else [ev "generate_fragments_module" (.module (resultModule fragments []))]) ++
  [ ev "generate_gql_function" (.method gqlFn),
    ev "generate_client_class" (.klass { name := "Client", bases := [.name "AsyncBaseClient"], keywords := 0,
                                         body := .method (method snake clsName op lines) :: extraMethods }),
    ev "generate_client_module" (.module { body := [] }),
    ev "generate_init_import" (.imp (imp 1 "client" ["Client"])),
    ev "generate_init_module" (.module { body := [] }) ]

/-- C15-F7: `query C { count }`, plugins = [ShorterResults, ClientForwardRefs] -/
def f7 : Input :=
  { plugins := [.shorter {}, .fwd {}],
    events := events "C" "c" "C" [cls "C" ["BaseModel"] [("count", .name "int")]] [] ["query C {\n", "  count\n", "}\n"] [] [] }

/-- C15-F3: `query GetMe { me { id } }`, plugins = [ClientForwardRefs, ShorterResults] -/
def f3 : Input :=
  { plugins := [.fwd {}, .shorter {}],
    events := events "GetMe" "get_me" "GetMe"
      [cls "GetMeMe" ["BaseModel"] [("id", .name "str")],
       cls "GetMe" ["BaseModel"] [("me", .sub (.name "Optional") (.name "\"GetMeMe\""))]] []
      ["query GetMe {\n", "  me {\n", "    id\n", "  }\n", "}\n"] [] [] }

/-- the same input with the plugins the other way round -/
def f3swapped : Input := { f3 with plugins := [.shorter {}, .fwd {}] }

/-- C15-F4: `query Q { ...QF }  fragment QF on Query { when }` (custom scalar), plugins = [ShorterResults] -/
def f4 : Input :=
  { plugins := [.shorter {}],
    events := events "Q" "q" "Q" [cls "Q" ["QF"] []] [imp 1 "fragments" ["QF"]] ["query Q {\n", "  ...QF\n", "}\n"]
      [cls "QF" ["BaseModel"] [("when", .sub (.name "Optional") (.name "datetime"))]] [] }

/-- C15-F5: enable_custom_operations (the client class also has `execute_custom_operation`, which ends
    in `return self.get_data(response)`), plugins = [ClientForwardRefs] -/
def f5 : Input :=
  { plugins := [.fwd {}], customOps := true,
    events := events "GetMe" "get_me" "GetMe"
      [cls "GetMeMe" ["BaseModel"] [("id", .name "str")],
       cls "GetMe" ["BaseModel"] [("me", .sub (.name "Optional") (.name "\"GetMeMe\""))]] []
      ["query GetMe {\n", "  me {\n", "    id\n", "  }\n", "}\n"] []
      [.method { isAsync := true, name := "execute_custom_operation", args := [("self", none)],
                 rest := .other "arguments:*fields" [], decorators := 0,
                 returns := some (.sub (.name "Dict") (.tuple [.name "str", .name "Any"])),
                 body := [.simple (.ret (some (.call (.attr (.name "self") "get_data") [.name "response"] [] [])))] }] }

/-- C15-F6: an operation named `Operations`, plugins = [ExtractOperations] -/
def f6 : Input :=
  { plugins := [.extract {}],
    events := events "Operations" "operations" "Operations" [cls "Operations" ["BaseModel"] [("count", .name "int")]] []
      ["query Operations {\n", "  count\n", "}\n"] [] [] }

end W

/-! ## 7b. Every subset, every order, every multiplicity: what a chain of bundled plugins can do to the client module -/

/-- `plugin_chain_preserves_methods`.  The module `ClientGenerator.generate` assembles
    (`imports ++ [gql, class]`, `ClientInv`) goes through the plugin manager with ANY list of bundled
    plugins in ANY state.  If no hook raises, the result is again such a module (the class is still the
    first class, nothing is dropped), and every member of the class body is either untouched or a method
    with the same name which — when it had the generated shape `bodyOf s` — still has a generated shape
    `bodyOf s'` with the same operation source, operation name, variables expression, validated class and
    kind; projections are only appended (ShorterResults), in-body imports only prepended
    (ClientForwardRefs).  Together with §3 (`sem` of a projection), §4 (ExtractOperations, which acts
    on the method hook) and §5 (where the prepended import points) this is "same request, same accepted
    responses, apart from the documented change" at the level the plugins control. -/
theorem plugin_chain_preserves_methods (c : Call) (hc : c.hook = "generate_client_module")
    (ps ps' : List PState) (M : Module) (cls : ClassDef) (y : Payload) (hinv : ClientInv M cls)
    (h : manager c ps (.module M) = .ok (ps', y)) :
    ∃ M' cls', y = .module M' ∧ ClientInv M' cls' ∧ M'.firstClass? = some cls' ∧ cls'.name = cls.name ∧
      cls'.bases = cls.bases ∧ ItemsRel MethodPreserved cls.body cls'.body := by
  obtain ⟨M', cls', hy, hinv', hn, hb, hrel⟩ := chain_client_module c hc ps ps' M cls y hinv h
  exact ⟨M', cls', hy, hinv', firstClass_of_inv hinv', hn, hb,
    ItemsRel.mono (fun m m' hm => hm.preserved) hrel⟩

/-- non-vacuity: the client module of the witness input is of the assembled form -/
example : ClientInv
    { body := [.simple (.importFrom (W.imp 1 "async_base_client" ["AsyncBaseClient"])), .funcDef W.gqlFn,
               .classDef { name := "Client", bases := [.name "AsyncBaseClient"], keywords := 0,
                           body := [.method (W.method "c" "C" "C" ["query C {\n"])] }] }
    { name := "Client", bases := [.name "AsyncBaseClient"], keywords := 0,
      body := [.method (W.method "c" "C" "C" ["query C {\n"])] } :=
  ⟨[.simple (.importFrom (W.imp 1 "async_base_client" ["AsyncBaseClient"]))], W.gqlFn, rfl,
   fun t ht => by simp at ht; subst ht; rfl,
   ⟨.simple (.importFrom (W.imp 1 "async_base_client" ["AsyncBaseClient"])), by simp, rfl⟩⟩

/-- each witness is a valid input: the unplugged package is generated, loads, has the generated shape -/
theorem witnesses_valid :
    validB W.f7 = true ∧ validB W.f3 = true ∧ validB W.f3swapped = true ∧ validB W.f4 = true ∧ validB W.f5 = true ∧
    validB W.f6 = true := by decide +kernel

/-- C15-F7 on the model: an `if TYPE_CHECKING:` without body, the module cannot be formatted -/
theorem finding_F7_on_model : loadsB W.f7.plugins W.f7 = false ∧ triggersOf W.f7 = ["fwdEmptyTypeChecking"] := by
  decide +kernel

/-- C15-F3 on the model: ForwardRefs first ⇒ no projection although `GetMe` has the single field `me`;
    the other order projects and loads -/
theorem finding_F3_on_model :
    projOKB W.f3.plugins W.f3 = false ∧ loadsB W.f3.plugins W.f3 = true ∧ triggersOf W.f3 = ["fwdBeforeShorter"] ∧
    projOKB W.f3swapped.plugins W.f3swapped = true ∧ loadsB W.f3swapped.plugins W.f3swapped = true ∧
    triggersOf W.f3swapped = [] := by decide +kernel

/-- C15-F4 on the model: the return annotation `Optional[datetime]` names a class the client module never imports -/
theorem finding_F4_on_model : loadsB W.f4.plugins W.f4 = false ∧ triggersOf W.f4 = ["shorterUnimportedName"] := by
  decide +kernel

/-- C15-F5 on the model: KeyError inside the hook -/
theorem finding_F5_on_model : (runWith W.f5.plugins W.f5).2 = some "KeyError" ∧ triggersOf W.f5 = ["fwdSelfCall"] := by
  decide +kernel

/-- C15-F6 on the model: the operations module and the result-types module of `Operations` are the same file -/
theorem finding_F6_on_model : loadsB W.f6.plugins W.f6 = false ∧ triggersOf W.f6 = ["opsModuleClash"] := by
  decide +kernel

/-- The property as stated is false on the pinned tree. -/
theorem C15_full_false : ¬ C15_full := by
  intro h
  have h7 := (h W.f7 witnesses_valid.1).1
  rw [finding_F7_on_model.1] at h7
  cases h7

/-! ### what is proved of the whole-pipeline statement -/

/-- one decidable trigger per open finding (Model/PluginFindings.lean; Python twins in harness/c15.py) -/
def Supported_15 (x : Input) : Prop :=
  ¬ (trigFwdBeforeShorter x = true ∨ trigShorterUnimportedName x = true ∨ trigFwdSelfCall x = true ∨
     trigOpsModuleClash x = true ∨ trigFwdEmptyTypeChecking x = true)

/-- the region in which the WHOLE-PIPELINE statement (`loadsB ∧ projOKB ∧ SameBehaviour` of `runPipeline`)
    is proved so far: configurations made of the identity plugin and NoReimports only.  For lists
    containing ShorterResults / ExtractOperations / ClientForwardRefs what is proved — for every list,
    order and multiplicity — is `plugin_chain_preserves_methods` (§7b) and the per-plugin theorems of
    §3–§7; that the scoping checks `annScopedB`/`wellScopedB` of the assembled package hold for such lists
    is NOT proved: there the model is evaluated on every generated case and compared with what CPython
    did (correspondence), and the property is judged by the oracle (evidence: "unproved region"). -/
def Proved_15 (x : Input) : Prop :=
  ∀ p ∈ x.plugins, p = PState.identity ∨ p = PState.noReimports


theorem inert_run (ps : List PState) (x : Input) (h : Inert ps) :
    (runWith ps x).2 = (runWith [] x).2 ∧ (runWith ps x).1.clientModule? = (runWith [] x).1.clientModule? ∧
    (runWith ps x).1.opsFile? = none ∧ (runWith [] x).1.opsFile? = none := by
  have hrel : InertRel { plugins := ps } { plugins := [] } :=
    ⟨h, rfl, rfl, rfl, rfl, rfl, rfl, fun _ _ => rfl⟩
  obtain ⟨herr, hin, hnil, _, _, _, _, _, hf⟩ := runPipeline_inert x.events _ _ hrel
  refine ⟨herr, ?_, inert_opsFile _ hin, inert_opsFile _ (by show Inert (runPipeline { plugins := [] } x.events).1.plugins; rw [hnil]; intro p hp; cases hp)⟩
  unfold PipeState.clientModule?
  rw [show (runWith ps x).1.finalOf "generate_client_module" = (runWith [] x).1.finalOf "generate_client_module" from
    hf "generate_client_module" (by decide)]

/-- The whole-pipeline statement on `Supported_15 ∩ Proved_15` (see `Proved_15` for what is outside). -/
theorem C15_partial (x : Input) (hv : validB x = true) (hs : Supported_15 x) (hp : Proved_15 x) :
    loadsB x.plugins x = true ∧ projOKB x.plugins x = true ∧ SameBehaviour x.plugins x := by
  have hin : Inert x.plugins := hp
  obtain ⟨h1, h2, h3, h4⟩ := inert_run x.plugins x hin
  obtain ⟨k1, k2, k3⟩ := inert_no_kind x.plugins hin
  simp only [validB, Bool.and_eq_true] at hv
  obtain ⟨⟨_, hl⟩, hproj⟩ := hv
  have hclash : trigOpsModuleClash { x with plugins := x.plugins } = trigOpsModuleClash { x with plugins := [] } := by
    unfold trigOpsModuleClash
    simp only [List.any_nil]
    rw [List.any_eq_false]
    intro p hp'
    rcases hin p hp' with rfl | rfl <;> simp
  have hfm : ∀ n, finalMethod x.plugins x n = finalMethod [] x n := by intro n; unfold finalMethod; rw [h2]
  have hfs : ∀ n, finalShape x.plugins x n = finalShape [] x n := by intro n; unfold finalShape; rw [hfm]
  have hexp : ∀ m, expectedProj x.plugins x m = expectedProj [] x m := by
    intro m; unfold expectedProj; simp [k1]
  have hpkg : pkgOf x.plugins x = pkgOf [] x := by unfold pkgOf; rw [h2, h3, h4]
  refine ⟨?_, ?_, ?_⟩
  · unfold loadsB at hl ⊢
    simp only [h1, h2, h3, hclash]
    simp only [h4] at hl
    exact hl
  · unfold projOKB at hproj ⊢
    simp only [hfs, hexp]
    exact hproj
  · intro m hm s0 hs0
    refine ⟨s0, by rw [hfs]; exact hs0, by rw [hpkg], ?_⟩
    intro PyV validate getattr d
    rw [hpkg, hexp]
    have : expectedProj [] x m = [] := by unfold expectedProj; simp
    rw [this]
    simp only [List.foldl_nil]
    exact (outcome_map_id _).symm

/-- non-vacuity of `C15_partial`: a valid, supported input with `[identity, NoReimports]` -/
example : validB { W.f3 with plugins := [.identity, .noReimports] } = true ∧
    Supported_15 { W.f3 with plugins := [.identity, .noReimports] } ∧
    Proved_15 { W.f3 with plugins := [.identity, .noReimports] } := by
  refine ⟨by decide +kernel, ?_, ?_⟩
  · unfold Supported_15; decide +kernel
  · intro p hp; simp at hp; rcases hp with rfl | rfl <;> simp

/-- non-vacuity of the shape hypotheses of §3–§5: the witness method has the generated shape, its result class
    `GetMe` has the single field `me`, and ShorterResults projects it -/
example : (W.method "get_me" "GetMe" "GetMe" ["query\n"]).body = bodyOf (W.shape "GetMe" "GetMe" ["query\n"]) := rfl

example : (singleFieldOf (shorterFacts "fragments" W.f3.events) (W.method "get_me" "GetMe" "GetMe" [])).map (·.1) = some "me" := by
  decide +kernel

/-- a single field inherited from a fragment class counts (`Q(QF)` with `QF.when`) -/
example : (singleFieldOf (shorterFacts "fragments" W.f4.events) (W.method "q" "Q" "Q" [])).map (·.1) = some "when" := by
  decide +kernel


/-! ## 10. Non-vacuity of the hypotheses used above (concrete instances; tests, not theorems) -/

section NonVacuity

def exLines : List String := ["query GetMe {\n", "  me {\n", "    id\n", "  }\n", "}\n"]
def exMethod : Method := W.method "get_me" "GetMe" "GetMe" exLines
def exShape : Shape := W.shape "GetMe" "GetMe" exLines

/-- §3/§4/§5: the method client.py builds has the generated shape, no in-body import, the operation inlined,
    at most one projection, a plain class name as return annotation -/
example : exMethod.body = bodyOf exShape ∧ exShape.imports = [] ∧ exShape.op = .inline "query" exLines ∧
    exShape.tail = .call true "response" "data" ∧ exShape.proj.length ≤ 1 ∧ exMethod.returns = some (.name "GetMe") :=
  ⟨rfl, rfl, rfl, rfl, by decide, rfl⟩

/-- §3: with the classes of the witness recorded, `GetMe` has exactly one field and the plugin's lookup succeeds -/
example : (match nodeAndClass (shorterFacts "fragments" W.f3.events).classDict "GetMe" with
    | .ok (some (_, classes, f)) => f == "me" && classes == ["GetMeMe"]
    | _ => false) = true := by decide +kernel

/-- §4: after `generate_operation_str` the constant is known and the kind/async hypotheses hold -/
example : alookup "GetMe" ({ vars := [("GetMe", gqlVarName "get_me")] } : ExtractState).vars = some "GET_ME_GQL" ∧
    ((none : Option String) ≠ some "subscription" ∧ ({} : ExtractState).asyncClient = true) := by decide +kernel

/-- §4: the whole ExtractOperations round on the witness: constant referenced, module written with the same lines -/
example : (match runWith [.extract {}] W.f3 with
    | (ps, none) =>
      (match ps.opsFile?, finalShape [.extract {}] W.f3 "get_me" with
       | some (name, f), some s =>
         name == "operations" && f.all == ["GET_ME_GQL"] && alookup "GET_ME_GQL" f.assigns == some exLines &&
         (match s.op with | .const c => c == "GET_ME_GQL" | _ => false)
       | _, _ => false)
    | _ => false) = true := by decide +kernel

/-- §5: ClientForwardRefs on the witness: the class is recorded under ".get_me" and imported in the body from there -/
example : (match finalShape [.fwd {}] W.f3 "get_me" with
    | some s => s.imports == [{ module := some ".get_me", names := [("GetMe", none)], level := 0 }] && s.proj == []
    | none => false) = true := by decide +kernel

/-- §6: NoReimports in the middle of a list: the init module that comes out is empty -/
example : (match manager { hook := "generate_init_module" } [.extract {}, .noReimports, .identity]
      (.module { body := [.simple (.importFrom (W.imp 1 "client" ["Client"])), .simple (.assignList "__all__" ["Client"])] }) with
    | .ok (_, .module m) => m.body.isEmpty
    | _ => false) = true := by decide +kernel

/-- §7/§7b: both orders on the same input — `[S, F]` projects and imports in the body, `[F, S]` only imports -/
example : ((finalShape [.shorter {}, .fwd {}] W.f3 "get_me").map (fun s => (s.proj, s.imports.length))) = some (["me"], 1) ∧
    ((finalShape [.fwd {}, .shorter {}] W.f3 "get_me").map (fun s => (s.proj, s.imports.length))) = some ([], 1) := by
  decide +kernel

end NonVacuity

end Ariadne.C15
