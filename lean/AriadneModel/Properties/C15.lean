/-
  C15 — Bundled plugins preserve client behaviour apart from their documented change.

  Statements and final proofs.  Models: Model/Plugins.lean (plugin manager + the four bundled
  plugins), Model/PluginPipeline.lean (hook call sites), Model/ClientSem.lean (what a generated
  method does), Model/PluginFindings.lean (finding triggers); lemmas: Proofs/C15.lean.
-/
import AriadneModel.Proofs.C15

set_option linter.unusedSimpArgs false
set_option linter.unusedVariables false

namespace Ariadne.C15
open Ariadne Ariadne.Py Ariadne.Plugins Ariadne.ClientSem

/-! ## 1. The plugin manager: hooks in configuration order (all plugin lists, all hooks, any state type) -/

/-- `_apply_plugins_on_object` on `p :: ps` = the hook of `p` first, then the rest of the list on
    what `p` returned (and every plugin keeps the state its own hook produced). -/
theorem hooks_in_order {σ : Type} (step : Call → σ → Payload → M (σ × Payload)) (c : Call)
    (p : σ) (ps : List σ) (x : Payload) :
    applyAll step c (p :: ps) x =
      (step c p x >>= fun r => applyAll step c ps r.2 >>= fun r' => pure (r.1 :: r'.1, r'.2)) :=
  applyAll_cons step c p ps x

theorem hooks_in_order_nil {σ : Type} (step : Call → σ → Payload → M (σ × Payload)) (c : Call) (x : Payload) :
    applyAll step c [] x = pure ([], x) := rfl

/-- Splitting the configured list anywhere: the second part sees what the first part returned. -/
theorem hooks_in_order_append {σ : Type} (step : Call → σ → Payload → M (σ × Payload)) (c : Call)
    (ps qs : List σ) (x : Payload) :
    applyAll step c (ps ++ qs) x =
      (applyAll step c ps x >>= fun r => applyAll step c qs r.2 >>= fun r' => pure (r.1 ++ r'.1, r'.2)) :=
  applyAll_append step c ps qs x

end Ariadne.C15
