import AriadneModel.Model.InputField
import AriadneModel.Spec.CoerceInput
import AriadneModel.Spec.PydInput

namespace Ariadne.C06

theorem stub : True := trivial

end Ariadne.C06
