/-
  C06 — Input models accept exactly the schema's input values, with its defaults.

  "For every input object type the generated model can be built, by Python field name or by GraphQL
   name, from every value the schema's own input coercion accepts in canonical form (IDs as strings,
   enum values by name; null list items where the item type is nullable included), and it refuses a
   value that lacks a field the schema requires (non-null without default).  For every field with a
   schema default, an instance created without that field reads back a value equal to the coerced
   schema default, and the value the server finally sees for it equals that default."

  Objects of the statements:
    * `Model/InputField.lean`   the generator (`parse_input_field_type`, default expressions, alias merge)
    * `Spec/CoerceInput.lean`   graphql-core's `coerce_input_value` / `value_from_ast`  (validated, not verified)
    * `Spec/PydInput.lean`      pydantic on the generated class, CPython on the emitted defaults (validated, not verified)
    * `Model/InputRel.lean`     canonical form, re-keying by Python names, `related`

  `C06_full` is FALSE on the pinned tree (`C06_full_false`, finding C06-F1; the other findings have
  their own model-level witnesses below).  `C06_partial` is the property outside the finding
  triggers, for values / lists / objects of any size and nesting depth.  Its hypothesis `Proved_06`
  (`InputRel.related`: the generated module mirrors the schema field by field and every default
  evaluates) is decidable and is evaluated by the driver on every generated case.  THAT THE GENERATOR
  ESTABLISHES IT is a theorem for the decidable class `WF_06` (`proved_06_of_wf`, proof in
  `Proofs/C06Related.lean`: names not reserved, every field type resolves, enum members do not collide,
  every default literal is `plainLit` — no object literal, a list literal only at a list type), so
  `C06_partial_plain` needs no `Proved_06`; for schemas with object-literal defaults (and structured
  literals on custom scalars) it is covered by the measurement only.  The same for either schema
  source: `proved_06_src_of_wf`, `C06_partial_any_source_plain`.
  `ReadsBackDefaults` (should-tier) is proved in two halves: `default_not_validated` (an absent field
  reads back exactly the evaluated default expression) and `default_readback` (for every default literal
  WITHOUT object literals — scalars, enums, null, lists and nested lists of those — the emitted
  expression evaluates to a value equal to `coerceLit`, the coerced schema default); defaults with
  object literals are covered by the `readback` correspondence op and the oracle only.

  BOTH SCHEMA SOURCES (section "both schema sources" below; `Model/InputSource.lean`,
  `Proofs/C06Source.lean`): the generator with `field.ast_node` absent (a schema obtained by
  introspection) is the SDL generator applied to what it can see of the schema (`classes_src_is_view`);
  `required_iff_src` / `required_iff_intro` / `required_iff_any_source`; `C06_partial_any_source` is
  `C06_partial` for the module of either source; `intro_default_lost` (for EVERY field: on the
  introspection path the class gets `= None` or nothing, whatever the schema default) and
  `accepts_false_on_introspection` / `intro_default_reads_none` are finding C06-F8 on the model.

  THE MODULE AROUND THE CLASSES (section "imports and class selection"; `Model/InputDeps.lean`,
  `Proofs/C06Deps.lean`, C09's DFS lemmas reused): `generate_total`, `used_enum_imported`,
  `dependency_emitted`, `default_names_bound`.
-/
import AriadneModel.Proofs.C06Accept
import AriadneModel.Proofs.C06Defaults
import AriadneModel.Proofs.C06Readback
import AriadneModel.Proofs.C06Source
import AriadneModel.Proofs.C06Deps
import AriadneModel.Proofs.C06Related

set_option linter.unusedSimpArgs false
set_option linter.unusedVariables false
set_option linter.unusedSectionVars false

namespace Ariadne.C06
open Ariadne
open Ariadne.InputGen (TypeRef Lit PyExpr InputField TypeDef Mode)
open Ariadne.InputField Ariadne.CoerceInput Ariadne.PydInput Ariadne.InputRel
open Ariadne.InputSource Ariadne.InputDeps Ariadne.InputWf

/-! ## the setting -/

/-- everything the property quantifies over besides the value: configuration, type definitions,
    and the two external parameters of the pydantic reference semantics -/
structure Setting where
  cfg : Cfg
  defs : List TypeDef
  acc : String → J → Bool := fun _ _ => false
  lax : Lax := Lax.none

def Setting.S (x : Setting) : CSchema := mkSchema x.defs
def Setting.env (x : Setting) : Env := mkEnv x.cfg x.defs x.acc x.lax
def Setting.kinds (x : Setting) : String → Kind := kindOf x.cfg x.defs

/-- the schema is one graphql-core builds: type names and field names unique, every default
    literal valid for its type -/
def validDefs (defs : List TypeDef) : Bool :=
  strDistinct (defs.map TypeDef.name) &&
  defs.all fun
    | .input _ fs =>
      strDistinct (fs.map (·.name)) &&
        fs.all (fun f => match f.default with
          | some lit => isOk (coerceLit (mkSchema defs) f.type lit)
          | none => true)
    | _ => true

def Valid (x : Setting) : Prop := validDefs x.defs = true

def keys (kvs : List (String × J)) : List String := kvs.map (·.1)

/-! ## the property at full strength -/

/-- every canonical value coercion accepts builds the model, by GraphQL names and by Python names -/
def Accepts (x : Setting) : Prop :=
  ∀ n fs, x.S.find? n = some (.input n fs) → ∀ v c, v ≠ .null →
    coerce x.S (.named n) v = .ok c → canonical x.env x.kinds x.S (.named n) v = true →
      (∃ m, construct x.env n v = .ok m) ∧ (∃ m, construct x.env n (rekey x.env x.S true (.named n) v) = .ok m)

/-- a value lacking a field the schema requires is refused -/
def RefusesLacking (x : Setting) : Prop :=
  ∀ n fs, x.S.find? n = some (.input n fs) → ∀ cf ∈ fs, cf.type.isNonNull = true → cf.default = none →
    ∀ kvs, cf.name ∉ keys kvs → pyName x.cfg.snake cf.name ∉ keys kvs → ∃ e, construct x.env n (.obj kvs) = .error e

/-- an instance created without a defaulted field reads back the coerced schema default -/
def ReadsBackDefaults (x : Setting) : Prop :=
  ∀ n fs, x.S.find? n = some (.input n fs) → ∀ cf ∈ fs, ∀ d, cf.default = some (.ok d) →
    ∀ kvs m, cf.name ∉ keys kvs → pyName x.cfg.snake cf.name ∉ keys kvs → construct x.env n (.obj kvs) = .ok m →
      ∃ pv, attr m (pyName x.cfg.snake cf.name) = some pv ∧ pvMatches x.env pv d = true

/-- … and what the server makes of the dumped instance carries that default -/
def ServerSeesDefaults (x : Setting) : Prop :=
  ∀ n fs, x.S.find? n = some (.input n fs) → ∀ cf ∈ fs, ∀ d, cf.default = some (.ok d) →
    ∀ kvs m, cf.name ∉ keys kvs → pyName x.cfg.snake cf.name ∉ keys kvs → construct x.env n (.obj kvs) = .ok m →
      ∀ c, coerce x.S (.named n) (dump x.env m) = .ok c → ∃ out, c = .obj out ∧ J.lookup cf.name out = some d

def C06_full : Prop :=
  ∀ x : Setting, Valid x → Accepts x ∧ RefusesLacking x ∧ ReadsBackDefaults x ∧ ServerSeesDefaults x

/-! ## the findings, on the model -/

def cfg0 : Cfg := ⟨true, []⟩

/-- does the construction fail with exactly this error? -/
def failsWith (r : Except VErr PV) (e : VErr) : Bool :=
  match r with
  | .error e' => e' == e
  | .ok _ => false

def coercesTo (r : Except CErr J) (j : J) : Bool :=
  match r with
  | .ok j' => j' == j
  | .error _ => false

/-- C06-F1: `[Int]!` — the schema accepts `[1, null]`, the model does not -/
def f1 : Setting := { cfg := cfg0, defs := [.input "In" [⟨"l", .nonNull (.list (.named "Int")), none, false⟩]] }
def f1Value : J := .obj [("l", .arr [.num 1 0, .null])]

set_option maxRecDepth 100000 in
theorem nullable_item_rejected :
    isOk (coerce f1.S (.named "In") f1Value) = true ∧ canonical f1.env f1.kinds f1.S (.named "In") f1Value = true
    ∧ isOk (construct f1.env "In" f1Value) = false := by decide +kernel

set_option maxRecDepth 100000 in
theorem C06_full_false : ¬ C06_full := by
  intro h
  obtain ⟨hacc, _⟩ := h f1 (by unfold Valid; decide +kernel)
  have hfind : f1.S.find? "In" = some (.input "In" [⟨"l", .nonNull (.list (.named "Int")), none⟩]) := by rfl
  have hco : coerce f1.S (.named "In") f1Value = .ok (.obj [("l", .arr [.num 1 0, .null])]) := by rfl
  obtain ⟨⟨m, hm⟩, _⟩ := hacc "In" _ hfind f1Value _ (by intro h; cases h) hco (by decide +kernel)
  have : isOk (construct f1.env "In" f1Value) = false := by decide +kernel
  rw [hm] at this
  cases this

/-- C06-F2: `o: In2 = {e: B}` — evaluating the default raises AttributeError (`In2.B`) -/
def f2 : Setting := { cfg := cfg0, defs :=
  [.enum "E" ["A", "B"], .input "In2" [⟨"e", .named "E", none, false⟩],
   .input "In" [⟨"o", .named "In2", some (.obj [("e", .enum "B")]), false⟩]] }

set_option maxRecDepth 100000 in
theorem enum_in_object_default_raises :
    validDefs f2.defs = true ∧ failsWith (construct f2.env "In" (.obj [])) (.defaultRaised (.attributeError "In2.B")) = true := by decide +kernel

/-- C06-F3: `e: [E] = [None]` — `E.None` is not Python: the module does not import -/
def f3 : Setting := { cfg := cfg0, defs :=
  [.enum "E" ["A", "None"], .input "In" [⟨"e", .list (.named "E"), some (.list [.enum "None"]), false⟩]] }

set_option maxRecDepth 100000 in
theorem keyword_enum_default_breaks_module :
    validDefs f3.defs = true ∧ f3.env.broken = true ∧ failsWith (construct f3.env "In" (.obj [])) .importError = true := by decide +kernel

/-- C06-F4: `l: [In2] = [{b: 1}]` — the default reads back as a list of `FieldInfo` objects -/
def f4 : Setting := { cfg := cfg0, defs :=
  [.input "In2" [⟨"b", .named "Int", none, false⟩],
   .input "In" [⟨"l", .list (.named "In2"), some (.list [.obj [("b", .int 1)]]), false⟩]] }

def isFieldInfoList : Except VErr PV → Bool
  | .ok (.model _ [(_, .list [.fieldInfo])] _) => true
  | _ => false

set_option maxRecDepth 100000 in
theorem object_in_list_default_is_fieldinfo :
    validDefs f4.defs = true ∧ isFieldInfoList (construct f4.env "In" (.obj [])) = true := by decide +kernel

/-- C06-F5: `i: ID = 5` reads back `5`, the coerced schema default is `"5"` -/
def f5 : Setting := { cfg := cfg0, defs := [.input "In" [⟨"i", .named "ID", some (.int 5), false⟩]] }

def readsBack (x : Setting) (cls py : String) : Option PV :=
  match construct x.env cls (.obj []) with
  | .ok m => attr m py
  | .error _ => none

def isNum5 : Option PV → Bool
  | some (.num 5 0) => true
  | _ => false

set_option maxRecDepth 100000 in
theorem coercing_default_mismatch :
    validDefs f5.defs = true ∧ coercesTo (coerceLit f5.S (.named "ID") (.int 5)) (.str "5") = true ∧ isNum5 (readsBack f5 "In" "i") = true
    ∧ pvMatches f5.env (.num 5 0) (.str "5") = false := by decide +kernel

/-- C06-F6: `j: JSON = {a: 1}` — `globals()[""]`: KeyError -/
def f6 : Setting := { cfg := cfg0, defs :=
  [.scalar "JSON", .input "In" [⟨"j", .named "JSON", some (.obj [("a", .int 1)]), false⟩]] }

set_option maxRecDepth 100000 in
theorem object_default_on_scalar_raises :
    validDefs f6.defs = true ∧ failsWith (construct f6.env "In" (.obj [])) (.defaultRaised (.keyError "")) = true := by decide +kernel

/-! ## outside the triggers -/

def okSetting0 : Setting := { cfg := cfg0, defs := [.enum "E" ["A", "class"]] }


/-- `Supported_06`: no finding trigger fires (one decidable predicate per finding, `InputField.supported`) -/
def Supported_06 (x : Setting) : Prop := supported x.cfg x.defs = true

/-- named conjunct, see the header: what the generator establishes between schema and module -/
def Proved_06 (x : Setting) : Prop := related x.kinds x.S x.env = true

/-- C06-F1's trigger is exactly about the annotation: off ⇒ `Optional[...]` at precisely the nullable
    positions (for every wrapper nesting) -/
theorem ann_faithful (kinds : String → Kind) (t : TypeRef) (h : trigNullableListItem t = false) :
    annOf kinds t true = annIdeal kinds t true :=
  annOf_faithful_top kinds t h

/-- must: a generated field is required iff its type is non-null and it has no default; its alias is
    the GraphQL name exactly when the Python name differs -/
theorem required_iff (cfg : Cfg) (kinds : String → Kind) (f : InputField) (d : FieldDecl)
    (h : genField cfg kinds f = some d) :
    (d.required = true ↔ (f.type.isNonNull = true ∧ f.default = none))
    ∧ d.py = pyName cfg.snake f.name
    ∧ d.value.alias = (if pyName cfg.snake f.name != f.name then some f.name else none) := by
  obtain ⟨a, ft, _, _, hpy, hdef, hal⟩ := genField_default cfg kinds f d h
  refine ⟨?_, hpy, hal⟩
  unfold FieldDecl.required
  rw [hdef, Option.isNone_iff_eq_none]
  exact fieldDefault_none_iff ft f

/-- must: whatever the schema's input coercion accepts in canonical form builds the model — by GraphQL
    names and by Python names, for values of any size and nesting depth -/
theorem input_accepts_coerced (x : Setting) (hp : Proved_06 x) : Accepts x := by
  intro n fs hin v c hnn hc hcan
  exact C06Accept.construct_accepts hp n fs hin v c hnn hc hcan

theorem all2_mem {α β : Type} (r : α → β → Bool) : ∀ (as : List α) (bs : List β), all2 r as bs = true →
    ∀ a ∈ as, ∃ b ∈ bs, r a b = true := by
  intro as
  induction as with
  | nil => intro bs _ a ha; cases ha
  | cons a0 as ih =>
    intro bs h a ha
    cases bs with
    | nil => simp [all2] at h
    | cons b0 bs =>
      simp only [all2, Bool.and_eq_true] at h
      rcases List.mem_cons.mp ha with rfl | ha'
      · exact ⟨b0, List.mem_cons_self .., h.1⟩
      · obtain ⟨b, hb, hr⟩ := ih bs h.2 a ha'
        exact ⟨b, List.mem_cons_of_mem _ hb, hr⟩

/-- the model field that belongs to a schema field (for any schema / module pair that is `related`) -/
theorem field_of_rel {kinds : String → Kind} {S : CSchema} {env : Env} (hp : related kinds S env = true)
    (n : String) (fs : List CField) (hin : S.find? n = some (.input n fs)) (cf : CField) (hcf : cf ∈ fs) :
    ∃ c sp, env.class? n = some c ∧ namesOK c.fields = true ∧ sp ∈ c.fields ∧ sp.key = cf.name
      ∧ (sp.default = none ↔ (cf.default = none ∧ cf.type.isNonNull = true)) := by
  obtain ⟨htr, _⟩ := C06Accept.related_type hp n _ hin
  simp only [typeRel, Bool.and_eq_true, beq_iff_eq] at htr
  cases hc : env.class? n with
  | none => simp [hc] at htr
  | some c =>
    simp only [hc, Bool.and_eq_true] at htr
    obtain ⟨_, h2, hn⟩ := htr
    obtain ⟨sp, hsp, hr⟩ := all2_mem _ fs c.fields h2 cf hcf
    refine ⟨c, sp, rfl, hn, hsp, C06Accept.fieldRel_key hr, ?_⟩
    simp only [fieldRel, Bool.and_eq_true, beq_iff_eq] at hr
    obtain ⟨⟨_, hreq⟩, _⟩ := hr
    rw [← Option.isNone_iff_eq_none, hreq]
    simp [Option.isNone_iff_eq_none]

theorem field_of (x : Setting) (hp : Proved_06 x) (n : String) (fs : List CField) (hin : x.S.find? n = some (.input n fs))
    (cf : CField) (hcf : cf ∈ fs) :
    ∃ c sp, x.env.class? n = some c ∧ namesOK c.fields = true ∧ sp ∈ c.fields ∧ sp.key = cf.name
      ∧ (sp.default = none ↔ (cf.default = none ∧ cf.type.isNonNull = true)) :=
  field_of_rel hp n fs hin cf hcf

theorem lacking_required_refused_rel {kinds : String → Kind} {S : CSchema} {env : Env} (hp : related kinds S env = true)
    (n : String) (fs : List CField) (hin : S.find? n = some (.input n fs)) (cf : CField) (hcf : cf ∈ fs)
    (hnn : cf.type.isNonNull = true) (hnd : cf.default = none) :
    ∃ sp : FieldSpec, sp.key = cf.name ∧ ∀ kvs, cf.name ∉ keys kvs → sp.py ∉ keys kvs → ∃ e, construct env n (.obj kvs) = .error e := by
  obtain ⟨c, sp, hc, hn, hsp, hkey, hreq⟩ := field_of_rel hp n fs hin cf hcf
  refine ⟨sp, hkey, ?_⟩
  intro kvs h1 h2
  exact C06Defaults.missing_required_refused env n c hc hn sp hsp (hreq.mpr ⟨hnd, hnn⟩) kvs (by rw [hkey]; exact h1) h2

/-- must: a value that mentions a required field neither by its GraphQL name nor by the Python name of
    its model field is refused -/
theorem lacking_required_refused (x : Setting) (hp : Proved_06 x) (n : String) (fs : List CField)
    (hin : x.S.find? n = some (.input n fs)) (cf : CField) (hcf : cf ∈ fs)
    (hnn : cf.type.isNonNull = true) (hnd : cf.default = none) :
    ∃ sp : FieldSpec, sp.key = cf.name ∧ ∀ kvs, cf.name ∉ keys kvs → sp.py ∉ keys kvs → ∃ e, construct x.env n (.obj kvs) = .error e :=
  lacking_required_refused_rel hp n fs hin cf hcf hnn hnd

theorem server_sees_default_rel {kinds : String → Kind} {S : CSchema} {env : Env} (hp : related kinds S env = true)
    (n : String) (fs : List CField)
    (hin : S.find? n = some (.input n fs)) (hdist : strDistinct (fs.map (·.name)) = true)
    (cf : CField) (hcf : cf ∈ fs) (d : J) (hdef : cf.default = some (.ok d)) :
    ∃ sp : FieldSpec, sp.key = cf.name ∧ ∀ kvs m, cf.name ∉ keys kvs → sp.py ∉ keys kvs → construct env n (.obj kvs) = .ok m →
      ∀ c, coerce S (.named n) (dump env m) = .ok c → ∃ out, c = .obj out ∧ J.lookup cf.name out = some d := by
  obtain ⟨cl, sp, hc, hn, hsp, hkey, _⟩ := field_of_rel hp n fs hin cf hcf
  refine ⟨sp, hkey, ?_⟩
  intro kvs m h1 h2 hm c hco
  obtain ⟨out, hd, hnot⟩ := C06Defaults.unset_not_dumped env n cl hc hn sp hsp kvs (by rw [hkey]; exact h1) h2 m hm
  rw [hd] at hco
  exact C06Defaults.server_applies_default S n fs hin hdist cf hcf d hdef out (by rw [← hkey]; exact hnot) c hco

/-- should (`server_sees_default`): an instance built without a defaulted field does not dump that
    field, and the server's coercion of the dump carries the schema default for it -/
theorem server_sees_default (x : Setting) (hv : Valid x) (hp : Proved_06 x) (n : String) (fs : List CField)
    (hin : x.S.find? n = some (.input n fs)) (hdist : strDistinct (fs.map (·.name)) = true)
    (cf : CField) (hcf : cf ∈ fs) (d : J) (hdef : cf.default = some (.ok d)) :
    ∃ sp : FieldSpec, sp.key = cf.name ∧ ∀ kvs m, cf.name ∉ keys kvs → sp.py ∉ keys kvs → construct x.env n (.obj kvs) = .ok m →
      ∀ c, coerce x.S (.named n) (dump x.env m) = .ok c → ∃ out, c = .obj out ∧ J.lookup cf.name out = some d :=
  server_sees_default_rel hp n fs hin hdist cf hcf d hdef

/-- should (half of `default_readback`): pydantic does not validate defaults — an absent field reads
    back exactly the evaluated default expression -/
theorem default_not_validated (env : Env) (cls : String) (c : ClassSpec) (hc : env.class? cls = some c)
    (hn : namesOK c.fields = true) (sp : FieldSpec) (hsp : sp ∈ c.fields) (d : PV) (hd : sp.default = some (.ok d))
    (kvs : List (String × J)) (h1 : sp.key ∉ keys kvs) (h2 : sp.py ∉ keys kvs) (m : PV)
    (hm : construct env cls (.obj kvs) = .ok m) : attr m sp.py = some d := by
  unfold construct at hm
  by_cases hb : env.broken = true
  · simp [hb] at hm
  · simp only [hb, Bool.false_eq_true, if_false, validate, core, hc] at hm
    cases hdf : defaultFailure c.fields kvs with
    | some e => simp [hdf] at hm
    | none =>
    simp only [hdf] at hm
    cases hv : validateKvs env c.fields kvs kvs with
    | error e => simp [hv] at hm
    | ok vals =>
      simp only [hv] at hm
      cases hf : PydInput.finish c.fields vals with
      | error e => simp [hf] at hm
      | ok fields =>
        simp only [hf, Except.ok.injEq] at hm
        subst hm
        obtain ⟨_, hpd, _⟩ := C06Accept.namesOK_parts hn
        have hnone : lookupPV sp.py vals = none := by
          apply C06Defaults.lookupPV_none_of_not_mem
          intro hmem
          obtain ⟨sp', hsp', hpy, hor⟩ := C06Defaults.validateKvs_keys env c.fields kvs kvs vals hv sp.py hmem
          have : sp' = sp := C06Accept.strDistinct_inj (fun (x : FieldSpec) => x.py) c.fields hpd sp' hsp' sp hsp hpy
          subst this
          rcases hor with h | h
          · exact h1 h
          · exact h2 h
        simp only [attr]
        -- `finish` puts the default at the field's position; Python names are distinct
        clear hv hc
        revert fields
        generalize c.fields = specs at hsp hpd
        induction specs with
        | nil => cases hsp
        | cons f specs ih =>
          intro fields hf
          simp only [List.map, strDistinct, Bool.and_eq_true, Bool.not_eq_true', List.contains_eq_mem,
            decide_eq_false_iff_not] at hpd
          simp only [PydInput.finish] at hf
          cases hr : PydInput.finish specs vals with
          | error e => simp [hr] at hf
          | ok rest =>
            simp only [hr] at hf
            rcases List.mem_cons.mp hsp with rfl | hsp'
            · simp only [hnone, hd, Except.ok.injEq] at hf
              subst hf
              simp [lookupPV]
            · have hne : ¬ f.py = sp.py := by
                intro e
                apply hpd.1
                rw [e]
                exact List.mem_map.mpr ⟨sp, hsp', rfl⟩
              have htail := ih hsp' hpd.2 rest hr
              cases hl : lookupPV f.py vals with
              | some pv =>
                simp only [hl, Except.ok.injEq] at hf
                subst hf
                simp only [lookupPV, hne, if_false]
                exact htail
              | none =>
                simp only [hl] at hf
                cases hdf : f.default with
                | none => simp [hdf] at hf
                | some r =>
                  cases r with
                  | error e => simp [hdf] at hf
                  | ok d' =>
                    simp only [hdf, Except.ok.injEq] at hf
                    subst hf
                    simp only [lookupPV, hne, if_false]
                    exact htail

/-- the default pydantic is given for a generated field is the emitted expression, evaluated -/
theorem emitted_default (prev : Env) (cfg : Cfg) (kinds : String → Kind) (f : InputField) (d : FieldDecl)
    (h : genField cfg kinds f = some d) :
    ∃ ft, (specOf prev d).default = (InputGen.fieldDefault .sdl ft f).map (evalDefault prev)
      ∧ ∀ lit, f.default = some lit → InputGen.fieldDefault .sdl ft f = some (InputGen.constValue ft lit false false) := by
  obtain ⟨a, ft, _, _, _, hdef, _⟩ := genField_default cfg kinds f d h
  refine ⟨ft, by simp [specOf, hdef], ?_⟩
  intro lit hl
  simp [InputGen.fieldDefault, hl]

/-- should (`default_readback`): for every default literal without object literals (scalars, enums by
    name, null, lists and nested lists of those, at a type they are written for) the emitted Python
    expression evaluates, and its value equals the coerced schema default `coerceLit` -/
theorem default_readback (s : CSchema) (env : Env) (ft : String)
    (henum : ∀ vals, s.find? ft = some (.enum ft vals) → C06Readback.EnumOk env ft vals)
    (lit : Lit) (t : TypeRef) (d : J) (hp : C06Readback.plainLit s ft t lit = true) (h : coerceLit s t lit = .ok d) :
    ∃ pv, evalDefault env (InputGen.constValue ft lit false false) = .ok pv ∧ pvMatches env pv d = true :=
  C06Readback.default_readback s env ft henum lit t d hp h

/-- non-vacuity of `default_readback`: `[[E!]] = [[A], [], null]` is a plain literal that coerces -/
example : C06Readback.plainLit okSetting0.S "E" (.list (.list (.nonNull (.named "E"))))
      (.list [.list [.enum "A"], .list [], .null]) = true
    ∧ isOk (coerceLit okSetting0.S (.list (.list (.nonNull (.named "E")))) (.list [.list [.enum "A"], .list [], .null])) = true := by
  decide +kernel

/-- non-vacuity of the enum hypothesis of `default_readback`: the module generated for `enum E { A class }` -/
example : C06Readback.EnumOk okSetting0.env "E" ["A", "class"] :=
  ⟨[("A", "A"), ("class_", "class")], by rfl, by decide⟩

/-- the property outside the finding triggers (see the header for `Proved_06`): acceptance by both
    kinds of names, refusal of values lacking a required field, and the server-side default -/
theorem C06_partial (x : Setting) (hv : Valid x) (hs : Supported_06 x) (hp : Proved_06 x) :
    Accepts x
    ∧ (∀ n fs, x.S.find? n = some (.input n fs) → ∀ cf ∈ fs, cf.type.isNonNull = true → cf.default = none →
        ∃ sp : FieldSpec, sp.key = cf.name ∧ ∀ kvs, cf.name ∉ keys kvs → sp.py ∉ keys kvs → ∃ e, construct x.env n (.obj kvs) = .error e)
    ∧ (∀ n fs, x.S.find? n = some (.input n fs) → strDistinct (fs.map (·.name)) = true → ∀ cf ∈ fs, ∀ d,
        cf.default = some (.ok d) →
        ∃ sp : FieldSpec, sp.key = cf.name ∧ ∀ kvs m, cf.name ∉ keys kvs → sp.py ∉ keys kvs → construct x.env n (.obj kvs) = .ok m →
          ∀ c, coerce x.S (.named n) (dump x.env m) = .ok c → ∃ out, c = .obj out ∧ J.lookup cf.name out = some d) :=
  ⟨input_accepts_coerced x hp,
   fun n fs hin cf hcf hnn hnd => lacking_required_refused x hp n fs hin cf hcf hnn hnd,
   fun n fs hin hdist cf hcf d hdef => server_sees_default x hv hp n fs hin hdist cf hcf d hdef⟩

/-! ## `Proved_06` is a theorem on `WF_06` -/

/-- the decidable class for which the generator is PROVED to establish `Proved_06` (`Model/InputWf.lean`) -/
def WF_06 (x : Setting) : Prop := wf06 x.cfg x.defs = true

/-- the generator establishes `InputRel.related` — for every valid, supported schema in `WF_06`, of any size -/
theorem proved_06_of_wf (x : Setting) (hv : Valid x) (hs : Supported_06 x) (hw : WF_06 x) : Proved_06 x :=
  C06Related.related_of_wf x.cfg x.defs x.acc x.lax hv hw hs

/-- the property outside the finding triggers, WITHOUT the measured hypothesis: for schemas whose
    defaults are plain literals (scalars, enums by name, null, lists and nested lists of those) -/
theorem C06_partial_plain (x : Setting) (hv : Valid x) (hs : Supported_06 x) (hw : WF_06 x) :
    Accepts x
    ∧ (∀ n fs, x.S.find? n = some (.input n fs) → ∀ cf ∈ fs, cf.type.isNonNull = true → cf.default = none →
        ∃ sp : FieldSpec, sp.key = cf.name ∧ ∀ kvs, cf.name ∉ keys kvs → sp.py ∉ keys kvs → ∃ e, construct x.env n (.obj kvs) = .error e)
    ∧ (∀ n fs, x.S.find? n = some (.input n fs) → strDistinct (fs.map (·.name)) = true → ∀ cf ∈ fs, ∀ d,
        cf.default = some (.ok d) →
        ∃ sp : FieldSpec, sp.key = cf.name ∧ ∀ kvs m, cf.name ∉ keys kvs → sp.py ∉ keys kvs → construct x.env n (.obj kvs) = .ok m →
          ∀ c, coerce x.S (.named n) (dump x.env m) = .ok c → ∃ out, c = .obj out ∧ J.lookup cf.name out = some d) :=
  C06_partial x hv hs (proved_06_of_wf x hv hs hw)

/-- non-vacuity of `WF_06`: aliases, keyword / reserved / camelCase names, a configured scalar, enum
    (incl. a keyword-named value that is not used in a default), every plain default kind, a recursive input -/
def okPlain : Setting := { cfg := ⟨true, [⟨"Code", "str", none⟩]⟩, defs :=
  [.enum "E" ["A", "class"],
   .scalar "JSON", .scalar "Code", .composite "Query",
   .input "In2" [⟨"e", .named "E", some (.enum "A"), false⟩, ⟨"b", .nonNull (.named "Int"), some (.int 3), false⟩,
                 ⟨"modelConfig", .named "Code", some (.str "c-1"), false⟩],
   .input "In" [⟨"camelCase", .list (.named "Int"), some (.list [.int 1, .null]), false⟩,
                ⟨"class", .nonNull (.list (.nonNull (.named "ID"))), none, false⟩,
                ⟨"es", .list (.list (.nonNull (.named "E"))), some (.list [.list [.enum "A"], .list [], .null]), false⟩,
                ⟨"f", .named "Float", some (.float "1.5e2"), false⟩,
                ⟨"o", .named "In2", some .null, false⟩,
                ⟨"self", .list (.list (.named "In")), none, false⟩,
                ⟨"j", .named "JSON", some (.bool true), false⟩]] }

set_option maxRecDepth 1000000 in
example : Valid okPlain ∧ Supported_06 okPlain ∧ WF_06 okPlain := by
  refine ⟨?_, ?_, ?_⟩
  · unfold Valid; decide +kernel
  · unfold Supported_06; decide +kernel
  · unfold WF_06; decide +kernel

/-! ## non-vacuity: a setting with every wrapper shape that is right, aliases, enum / list / object
    defaults, a recursive input — it is valid, supported, and `related` holds; a nested value with a
    null list item and a keyword-named field is accepted by coercion and is canonical -/

def okSetting : Setting := { cfg := cfg0, defs :=
  [.enum "E" ["A", "class"],
   .scalar "JSON",
   .input "In2" [⟨"e", .named "E", some (.enum "A"), false⟩, ⟨"b", .nonNull (.named "Int"), none, false⟩],
   .input "In" [⟨"camelCase", .list (.named "Int"), some (.list [.int 1, .null]), false⟩,
                ⟨"class", .nonNull (.list (.nonNull (.named "ID"))), none, false⟩,
                ⟨"o", .named "In2", some (.obj [("b", .int 1)]), false⟩,
                ⟨"self", .list (.list (.named "In")), none, false⟩,
                ⟨"j", .named "JSON", none, false⟩]] }

def okValue : J :=
  .obj [("class", .arr [.str "7"]), ("camelCase", .arr [.null, .num 2 0]),
        ("self", .arr [.null, .arr [.null, .obj [("class", .arr []), ("o", .obj [("b", .num 3 0), ("e", .str "class")])]]]),
        ("j", .obj [("any", .arr [.bool true])])]

set_option maxRecDepth 1000000 in
example : Valid okSetting ∧ Supported_06 okSetting ∧ Proved_06 okSetting := by
  refine ⟨?_, ?_, ?_⟩
  · unfold Valid; decide +kernel
  · unfold Supported_06; decide +kernel
  · unfold Proved_06; decide +kernel

set_option maxRecDepth 1000000 in
example : isOk (coerce okSetting.S (.named "In") okValue) = true
    ∧ canonical okSetting.env okSetting.kinds okSetting.S (.named "In") okValue = true
    ∧ isOk (construct okSetting.env "In" okValue) = true
    ∧ isOk (construct okSetting.env "In" (rekey okSetting.env okSetting.S true (.named "In") okValue)) = true := by decide +kernel

/-! ## both schema sources

  `field.ast_node` is present for a schema built from SDL and absent for one obtained by introspection
  (`build_client_schema`): `Mode`.  What coercion sees is `Ssrc` (defaults restored from the
  introspection result; an input field the endpoint did not return is not there), what is imported is
  `envSrc` (the module the generator emits from that schema object). -/

def Setting.envSrc (x : Setting) (m : Mode) : Env := mkEnvSrc m x.cfg x.defs x.acc x.lax
def Setting.Ssrc (x : Setting) (m : Mode) : CSchema := mkSchema (visibleDefs m x.defs)

theorem envSrc_sdl (x : Setting) : x.envSrc .sdl = x.env := C06Source.mkEnvSrc_sdl _ _ _ _
theorem Ssrc_sdl (x : Setting) : x.Ssrc .sdl = x.S := by unfold Setting.Ssrc Setting.S; rw [C06Source.visibleDefs_sdl]

/-- the classes generated from a schema of either source are the classes the SDL generator emits for
    what the generator can see of that schema (default literals erased, unreturned fields dropped) -/
theorem classes_src_is_view (m : Mode) (cfg : Cfg) (defs : List TypeDef) :
    classesSrc m cfg defs = classes cfg (viewOf m defs) ∧ classesSrc .sdl cfg defs = classes cfg defs :=
  ⟨C06Source.classesSrc_eq_view m cfg defs, C06Source.classesSrc_sdl cfg defs⟩

/-- requiredness for a schema of source `m`: required iff non-null and the generator can see no
    default; name and alias as for SDL -/
theorem required_iff_src (m : Mode) (cfg : Cfg) (kinds : String → Kind) (f : InputField) (d : FieldDecl)
    (h : genFieldSrc m cfg kinds f = some d) :
    (d.required = true ↔ (f.type.isNonNull = true ∧ (viewField m f).default = none))
    ∧ d.py = pyName cfg.snake f.name
    ∧ d.value.alias = (if pyName cfg.snake f.name != f.name then some f.name else none) := by
  obtain ⟨a, ft, _, _, hpy, _, hal⟩ := C06Source.genFieldSrc_default m cfg kinds f d h
  exact ⟨C06Source.genFieldSrc_required m cfg kinds f d h, hpy, hal⟩

/-- introspection: a field is required iff its type is non-null — the schema default plays no role -/
theorem required_iff_intro (b : Bool) (cfg : Cfg) (kinds : String → Kind) (f : InputField) (d : FieldDecl)
    (h : genFieldSrc (.intro b) cfg kinds f = some d) : d.required = true ↔ f.type.isNonNull = true := by
  rw [(required_iff_src (.intro b) cfg kinds f d h).1]
  simp [viewField]

/-- both sources in one statement: required iff non-null and (SDL →) no default -/
theorem required_iff_any_source (m : Mode) (cfg : Cfg) (kinds : String → Kind) (f : InputField) (d : FieldDecl)
    (h : genFieldSrc m cfg kinds f = some d) :
    d.required = true ↔ (f.type.isNonNull = true ∧ (m = .sdl → f.default = none)) := by
  rw [(required_iff_src m cfg kinds f d h).1, C06Source.viewField_default_none_iff]

/-- C06-F8, for EVERY field and every default literal: on the introspection path the class gets
    nothing (non-null type: the field is required) or `= None` (nullable type) — the schema default
    never reaches it -/
theorem intro_default_lost (b : Bool) (cfg : Cfg) (kinds : String → Kind) (f : InputField) (d : FieldDecl)
    (h : genFieldSrc (.intro b) cfg kinds f = some d) :
    d.value.default = (if f.type.isNonNull then none else some .none) := by
  obtain ⟨a, ft, _, _, _, hdef, _⟩ := C06Source.genFieldSrc_default (.intro b) cfg kinds f d h
  rw [hdef, C06Source.fieldDefault_intro]

def AcceptsSrc (m : Mode) (x : Setting) : Prop :=
  ∀ n fs, (x.Ssrc m).find? n = some (.input n fs) → ∀ v c, v ≠ .null →
    coerce (x.Ssrc m) (.named n) v = .ok c → canonical (x.envSrc m) x.kinds (x.Ssrc m) (.named n) v = true →
      (∃ r, construct (x.envSrc m) n v = .ok r) ∧ (∃ r, construct (x.envSrc m) n (rekey (x.envSrc m) (x.Ssrc m) true (.named n) v) = .ok r)

/-- C06-F8 witness: `input In { a: Int! = 5, b: Int = 7 }` -/
def f8 : Setting := { cfg := cfg0, defs :=
  [.input "In" [⟨"a", .nonNull (.named "Int"), some (.int 5), false⟩, ⟨"b", .named "Int", some (.int 7), false⟩]] }

set_option maxRecDepth 100000 in
/-- C06-F8: the schema accepts `{}` (both fields have defaults); the class generated from the
    introspected schema requires `a` -/
theorem accepts_false_on_introspection : ¬ (∀ x : Setting, Valid x → AcceptsSrc (.intro false) x) := by
  intro h
  have hacc := h f8 (by unfold Valid; decide +kernel)
  have hfind : (f8.Ssrc (.intro false)).find? "In" = some (.input "In"
      [⟨"a", .nonNull (.named "Int"), some (.ok (.num 5 0))⟩, ⟨"b", .named "Int", some (.ok (.num 7 0))⟩]) := by rfl
  have hco : coerce (f8.Ssrc (.intro false)) (.named "In") (.obj []) = .ok (.obj [("a", .num 5 0), ("b", .num 7 0)]) := by rfl
  obtain ⟨⟨r, hr⟩, _⟩ := hacc "In" _ hfind (.obj []) _ (by intro h; cases h) hco (by decide +kernel)
  have : isOk (construct (f8.envSrc (.intro false)) "In" (.obj [])) = false := by decide +kernel
  rw [hr] at this
  cases this

def readsBackSrc (x : Setting) (m : Mode) (cls py : String) (v : J) : Option PV :=
  match construct (x.envSrc m) cls v with
  | .ok r => attr r py
  | .error _ => none

def isNonePV : Option PV → Bool
  | some .none => true
  | _ => false

set_option maxRecDepth 100000 in
/-- C06-F8, the other half: with `a` given, `b` reads back `None` on the introspection path, the
    coerced schema default is `7`; from SDL it reads back `7` -/
theorem intro_default_reads_none :
    coercesTo (coerceLit (f8.Ssrc (.intro false)) (.named "Int") (.int 7)) (.num 7 0) = true
    ∧ isNonePV (readsBackSrc f8 (.intro false) "In" "b" (.obj [("a", .num 1 0)])) = true
    ∧ pvMatches (f8.envSrc (.intro false)) .none (.num 7 0) = false
    ∧ (match readsBackSrc f8 .sdl "In" "b" (.obj [("a", .num 1 0)]) with
       | some pv => pvMatches (f8.envSrc .sdl) pv (.num 7 0)
       | none => false) = true := by decide +kernel

/-- `Supported_06` for a schema of source `m`: the triggers of the emitted text evaluated on what the
    generator sees, plus C06-F8's -/
def Supported_06_src (m : Mode) (x : Setting) : Prop := supportedSrc m x.cfg x.defs = true

/-- `Proved_06` for a schema of source `m` -/
def Proved_06_src (m : Mode) (x : Setting) : Prop := related x.kinds (x.Ssrc m) (x.envSrc m) = true

/-- `C06_partial` for the module generated from a schema of either source -/
theorem C06_partial_any_source (m : Mode) (x : Setting) (hv : Valid x) (hs : Supported_06_src m x) (hp : Proved_06_src m x) :
    AcceptsSrc m x
    ∧ (∀ n fs, (x.Ssrc m).find? n = some (.input n fs) → ∀ cf ∈ fs, cf.type.isNonNull = true → cf.default = none →
        ∃ sp : FieldSpec, sp.key = cf.name ∧ ∀ kvs, cf.name ∉ keys kvs → sp.py ∉ keys kvs →
          ∃ e, construct (x.envSrc m) n (.obj kvs) = .error e)
    ∧ (∀ n fs, (x.Ssrc m).find? n = some (.input n fs) → strDistinct (fs.map (·.name)) = true → ∀ cf ∈ fs, ∀ d,
        cf.default = some (.ok d) →
        ∃ sp : FieldSpec, sp.key = cf.name ∧ ∀ kvs r, cf.name ∉ keys kvs → sp.py ∉ keys kvs → construct (x.envSrc m) n (.obj kvs) = .ok r →
          ∀ c, coerce (x.Ssrc m) (.named n) (dump (x.envSrc m) r) = .ok c → ∃ out, c = .obj out ∧ J.lookup cf.name out = some d) :=
  ⟨fun n fs hin v c hnn hc hcan => C06Accept.construct_accepts hp n fs hin v c hnn hc hcan,
   fun n fs hin cf hcf hnn hnd => lacking_required_refused_rel hp n fs hin cf hcf hnn hnd,
   fun n fs hin hdist cf hcf d hdef => server_sees_default_rel hp n fs hin hdist cf hcf d hdef⟩

/-- `WF_06` evaluated on what the generator sees of a schema of source `m` -/
def WF_06_src (m : Mode) (x : Setting) : Prop := wf06 x.cfg (viewOf m x.defs) = true

/-- the generator establishes `Proved_06_src` for either source, on `WF_06_src` (for introspection:
    between the schema with the defaults `build_client_schema` restores and the module generated
    without them) -/
theorem proved_06_src_of_wf (m : Mode) (x : Setting) (hv : Valid x) (hs : Supported_06_src m x) (hw : WF_06_src m x) :
    Proved_06_src m x := by
  cases m with
  | sdl =>
    unfold Proved_06_src
    rw [Ssrc_sdl, envSrc_sdl]
    unfold WF_06_src at hw
    rw [C06Source.viewOf_sdl] at hw
    unfold Supported_06_src at hs
    rw [C06Related.supportedSrc_sdl] at hs
    exact C06Related.related_of_wf x.cfg x.defs x.acc x.lax hv hw hs
  | intro b =>
    obtain ⟨hs', hne⟩ := C06Related.supported_view_of_src x.cfg x.defs b hs
    exact C06Related.related_intro_of_wf x.cfg x.defs x.acc x.lax b (C06Related.validDefs_view x.defs b hv) hw hs' hne

/-- `C06_partial_any_source` without the measured hypothesis, on `WF_06_src` -/
theorem C06_partial_any_source_plain (m : Mode) (x : Setting) (hv : Valid x) (hs : Supported_06_src m x) (hw : WF_06_src m x) :
    AcceptsSrc m x
    ∧ (∀ n fs, (x.Ssrc m).find? n = some (.input n fs) → ∀ cf ∈ fs, cf.type.isNonNull = true → cf.default = none →
        ∃ sp : FieldSpec, sp.key = cf.name ∧ ∀ kvs, cf.name ∉ keys kvs → sp.py ∉ keys kvs →
          ∃ e, construct (x.envSrc m) n (.obj kvs) = .error e)
    ∧ (∀ n fs, (x.Ssrc m).find? n = some (.input n fs) → strDistinct (fs.map (·.name)) = true → ∀ cf ∈ fs, ∀ d,
        cf.default = some (.ok d) →
        ∃ sp : FieldSpec, sp.key = cf.name ∧ ∀ kvs r, cf.name ∉ keys kvs → sp.py ∉ keys kvs → construct (x.envSrc m) n (.obj kvs) = .ok r →
          ∀ c, coerce (x.Ssrc m) (.named n) (dump (x.envSrc m) r) = .ok c → ∃ out, c = .obj out ∧ J.lookup cf.name out = some d) :=
  C06_partial_any_source m x hv hs (proved_06_src_of_wf m x hv hs hw)

/-- non-vacuity for the introspection path: aliases, every wrapper shape that is right, `= null`
    defaults (the only ones that survive), a recursive input -/
def okIntro : Setting := { cfg := cfg0, defs :=
  [.enum "E" ["A", "class"],
   .scalar "JSON",
   .input "In2" [⟨"e", .named "E", some .null, false⟩, ⟨"b", .nonNull (.named "Int"), none, false⟩],
   .input "In" [⟨"camelCase", .list (.named "Int"), none, false⟩,
                ⟨"class", .nonNull (.list (.nonNull (.named "ID"))), none, false⟩,
                ⟨"o", .named "In2", none, false⟩,
                ⟨"self", .list (.list (.named "In")), none, true⟩,
                ⟨"j", .named "JSON", none, false⟩]] }

set_option maxRecDepth 1000000 in
example : Valid okIntro ∧ Supported_06_src (.intro false) okIntro ∧ Proved_06_src (.intro false) okIntro
    ∧ WF_06_src (.intro false) okIntro := by
  refine ⟨?_, ?_, ?_, ?_⟩
  · unfold Valid; decide +kernel
  · unfold Supported_06_src; decide +kernel
  · unfold Proved_06_src; decide +kernel
  · unfold WF_06_src; decide +kernel

/-- non-vacuity of `required_iff_intro` / `intro_default_lost`: `a: Int! = 5` is generated, required -/
example : (genFieldSrc (.intro false) cfg0 (kindOf cfg0 f8.defs) ⟨"a", .nonNull (.named "Int"), some (.int 5), false⟩).map (·.required) = some true := by
  decide +kernel

/-! ## imports and class selection (`Model/InputDeps.lean`)

  A generated input class can be built only if `input_types.py` imports: every name the class bodies
  mention must be bound.  For every schema, source, configuration and list of roots
  (`generate(types_to_include)`; `none` = `include_all_inputs`). -/

/-- the fuelled DFS of the model never runs dry -/
theorem generate_total (m : Mode) (cfg : Cfg) (defs : List TypeDef) (roots : Option (List String)) :
    ∃ mod, generate m cfg defs roots = some mod :=
  C06Deps.generate_total m cfg defs roots

/-- every enum an emitted class is typed with (`annLeaf` of the field's annotation is that name) is
    in `from .enums import …` -/
theorem used_enum_imported (m : Mode) (cfg : Cfg) (defs : List TypeDef) (roots : Option (List String)) (mod : Module)
    (h : generate m cfg defs roots = some mod)
    (n : String) (fs : List InputField) (hd : TypeDef.input n fs ∈ defs) (hn : n ∈ mod.classes.map (·.name))
    (f : InputField) (hf : f ∈ InputGen.visibleFields m fs)
    (hk : kindOf cfg defs f.type.base = .enum) (hne : f.type.base ≠ "") :
    f.type.base ∈ mod.enumImport
    ∧ ∀ a ft, annOf (kindOf cfg defs) f.type true = some (a, ft) → C06Deps.annLeaf a = .name f.type.base :=
  ⟨C06Deps.used_enum_imported m cfg defs roots mod h n fs hd hn f hf hk hne,
   fun a ft ha => (C06Deps.annOf_leaf _ f.type true a ft ha).1 hk⟩

/-- every input class an emitted class refers to (as the forward reference `"T"`) is emitted -/
theorem dependency_emitted (m : Mode) (cfg : Cfg) (defs : List TypeDef) (roots : Option (List String)) (mod : Module)
    (h : generate m cfg defs roots = some mod)
    (n : String) (fs : List InputField) (hd : TypeDef.input n fs ∈ defs) (hn : n ∈ mod.classes.map (·.name))
    (f : InputField) (hf : f ∈ InputGen.visibleFields m fs)
    (hk : kindOf cfg defs f.type.base = .input) (hne : f.type.base ≠ "") :
    f.type.base ∈ mod.classes.map (·.name)
    ∧ ∀ a ft, annOf (kindOf cfg defs) f.type true = some (a, ft) → C06Deps.annLeaf a = .fwd f.type.base :=
  ⟨C06Deps.dependency_emitted m cfg defs roots mod h n fs hd hn f hf hk hne,
   fun a ft ha => (C06Deps.annOf_leaf _ f.type true a ft ha).2 hk⟩

/-- a default expression mentions only names `<field_type>.<v>` where `v` is an enum literal of the
    schema default; for an enum-typed field (C06-F2's trigger off) `field_type` is the field's own enum
    (imported: `used_enum_imported`) and, the default being valid, `v` is one of its values -/
theorem default_names_bound (m : Mode) (cfg : Cfg) (defs : List TypeDef) (f : InputField) (d : FieldDecl) (e : PyExpr)
    (h : genFieldSrc m cfg (kindOf cfg defs) f = some d) (he : d.value.default = some e)
    (s : String) (hs : s ∈ exprNames e) :
    ∃ a ft lit v, annOf (kindOf cfg defs) f.type true = some (a, ft) ∧ f.default = some lit ∧ v ∈ litEnums lit
      ∧ s = ft ++ "." ++ v
      ∧ (kindOf cfg defs f.type.base = .enum → ft = f.type.base ∧
          ∀ (S : CSchema) vals dflt, S.find? ft = some (.enum ft vals) → coerceLit S f.type lit = .ok dflt → v ∈ vals) := by
  obtain ⟨a, ft, ha, _, _, hdef, _⟩ := C06Source.genFieldSrc_default m cfg _ f d h
  rw [hdef] at he
  obtain ⟨_, lit, hlit, v, hv, rfl⟩ := C06Deps.fieldDefault_names m ft f e he s hs
  refine ⟨a, ft, lit, v, ha, hlit, hv, rfl, ?_⟩
  intro hk
  have hft := C06Deps.annOf_ft _ f.type true a ft ha
  simp only [C06Deps.ftOf, hk, Option.some.injEq] at hft
  refine ⟨hft.symm, ?_⟩
  intro S vals dflt hfind hco
  exact C06Deps.coerceLit_enums S ft vals hfind lit f.type dflt hft hco v hv

/-- non-vacuity: two inputs share the enum `E`, only `B` is a root; `B`'s module imports `E`, does not
    contain `A`, contains `C` (referred to by `B`) -/
def depDefs : List TypeDef :=
  [.enum "E" ["X", "Y"],
   .input "A" [⟨"e", .named "E", none, false⟩],
   .input "C" [⟨"n", .named "Int", none, false⟩],
   .input "B" [⟨"e", .nonNull (.named "E"), some (.enum "X"), false⟩, ⟨"c", .list (.named "C"), none, false⟩]]

set_option maxRecDepth 100000 in
example : (generate .sdl cfg0 depDefs (some ["B"])).map (fun mod => (mod.classes.map (·.name), mod.enumImport)) = some (["C", "B"], ["E"])
    ∧ (generate (.intro false) cfg0 depDefs none).map (fun mod => (mod.classes.map (·.name), mod.enumImport)) = some (["A", "C", "B"], ["E", "E"])
    ∧ kindOf cfg0 depDefs "E" = .enum ∧ kindOf cfg0 depDefs "C" = .input := by decide +kernel

set_option maxRecDepth 100000 in
example : (genFieldSrc .sdl cfg0 (kindOf cfg0 depDefs) ⟨"e", .nonNull (.named "E"), some (.enum "X"), false⟩).map
    (fun d => d.value.default.map exprNames) = some (some ["E.X"]) := by decide +kernel

end Ariadne.C06
