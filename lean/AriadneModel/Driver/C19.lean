/- Line-protocol driver for C19: runs the models of Model/SchemaLoad, Model/IntrospectChain,
   Model/InputGen (+ Spec/BuildClientSchema) on the harness's inputs. Driver glue, no theorems. -/
import AriadneModel.Driver.Wire
import AriadneModel.Model.SchemaLoad
import AriadneModel.Model.IntrospectChain
import AriadneModel.Model.InputGen
import AriadneModel.Spec.BuildClientSchema
import AriadneModel.Spec.GqlLexer
import AriadneModel.Generated.SchemaTextTables

open Lean (Json)
open Ariadne Ariadne.Wire

namespace C19Driver
open Ariadne.SchemaLoad Ariadne.Introspect Ariadne.InputGen

def strArr (xs : List String) : Json := Json.arr (xs.map Json.str).toArray
def pairArr (xs : List (String × String)) : Json := Json.arr (xs.map fun (a, b) => Json.arr #[.str a, .str b]).toArray

def getList (j : Json) (k : String) : Except String (List Json) := do
  let a ← (← j.getObjVal? k).getArr?
  pure a.toList

def getPairs (j : Json) (k : String) : Except String (List (String × String)) := do
  let xs ← getList j k
  xs.mapM fun it => do
    let pr ← it.getArr?
    if h : pr.size = 2 then pure (← pr[0].getStr?, ← pr[1].getStr?) else throw "pair expected"

/-! trees -/

partial def decTree (j : Json) : Except String (Tree Nat) := do
  match j.getObjVal? "f" with
  | .ok n =>
    let name ← n.getStr?
    match j.getObjVal? "c" with
    | .ok .null => pure (.file name none)
    | .ok c => do
      let ids ← (← c.getArr?).toList.mapM (·.getNat?)
      pure (.file name (some ids))
    | .error _ => pure (.file name none)
  | .error _ =>
    let name ← fieldStr j "d"
    let kids ← (← getList j "k").mapM decTree
    pure (.dir name kids)

def decSource (j : Json) : Except String (Source Nat) := do
  match j.getObjVal? "dir" with
  | .ok d => do
    let kids ← (← d.getArr?).toList.mapM decTree
    pure (.dir kids)
  | .error _ =>
    match j.getObjVal? "file" with
    | .ok .null => pure (.file none)
    | .ok c => do
      let ids ← (← c.getArr?).toList.mapM (·.getNat?)
      pure (.file (some ids))
    | .error _ => throw "src: dir or file expected"

def encPathOutcome : PathOutcome Nat → Json
  | .refused (.invalidSyntax p) => Json.mkObj [("o", "refused"), ("err", "InvalidGraphqlSyntax"), ("path", strArr p)]
  | .refused (.isADirectory p) => Json.mkObj [("o", "refused"), ("err", "IsADirectoryError"), ("path", strArr p)]
  | .emptyDocument => Json.mkObj [("o", "empty")]
  | .document ds => Json.mkObj [("o", "document"), ("defs", Json.arr (ds.map fun (n : Nat) => Json.num ⟨(n : Int), 0⟩).toArray)]

/-! introspection -/

def encKind : ErrKind → List (String × Json)
  | .invalidUrl => [("kind", "invalidUrl")]
  | .transport msg => [("kind", "transport"), ("msg", msg)]
  | .httpStatus s => [("kind", "httpStatus"), ("status", s)]
  | .notJson => [("kind", "notJson")]
  | .badFormat => [("kind", "badFormat")]
  | .errors e => [("kind", "errors"), ("errors", enc e)]
  | .badData => [("kind", "badData")]

def encUrlOutcome (p : PostResult) : Json :=
  match introspect p with
  | .introspectionError k => Json.mkObj ((("o", Json.str "introspectionError") : String × Json) :: encKind k)
  | .escaped e => Json.mkObj [("o", "other"), ("exc", match e.mro with | c :: _ => c | [] => ""), ("msg", e.msg)]
  | .data d =>
    match Spec.BuildClientSchema.top d with
    | .typeError => Json.mkObj [("o", "other"), ("exc", "TypeError")]
    | .keyError => Json.mkObj [("o", "other"), ("exc", "KeyError")]
    | .proceeds => Json.mkObj [("o", "proceeds")]

/-! inputs -/

partial def decTypeRef (j : Json) : Except String TypeRef := do
  let a ← j.getArr?
  if h : a.size = 2 then
    let tag ← a[0].getStr?
    match tag with
    | "named" => pure (.named (← a[1].getStr?))
    | "list" => pure (.list (← decTypeRef a[1]))
    | "nonnull" => pure (.nonNull (← decTypeRef a[1]))
    | _ => throw s!"typeref tag {tag}"
  else throw "typeref"

partial def decLit (j : Json) : Except String Lit := do
  let k ← fieldStr j "k"
  match k with
  | "int" => pure (.int (← (← j.getObjVal? "v").getInt?))
  | "float" => pure (.float (← fieldStr j "v"))
  | "str" => pure (.str (← fieldStr j "v"))
  | "bool" => pure (.bool (← fieldBool j "v"))
  | "null" => pure .null
  | "enum" => pure (.enum (← fieldStr j "v"))
  | "list" => do
    let xs ← (← getList j "v").mapM decLit
    pure (.list xs)
  | "obj" => do
    let xs ← (← getList j "v").mapM fun it => do
      let pr ← it.getArr?
      if h : pr.size = 2 then pure (← pr[0].getStr?, ← decLit pr[1]) else throw "obj pair"
    pure (.obj xs)
  | _ => throw s!"lit kind {k}"

def decField (j : Json) : Except String InputField := do
  let d ← match j.getObjVal? "default" with
    | .ok .null => pure none
    | .ok v => do pure (some (← decLit v))
    | .error _ => pure none
  pure ⟨← fieldStr j "name", ← decTypeRef (← field j "type"), d, ← fieldBool j "deprecated"⟩

def decDef (j : Json) : Except String TypeDef := do
  let k ← fieldStr j "kind"
  let n ← fieldStr j "name"
  match k with
  | "enum" => do
    let vs ← (← getList j "values").mapM (·.getStr?)
    pure (.enum n vs)
  | "input" => do
    let fs ← (← getList j "fields").mapM decField
    pure (.input n fs)
  | "scalar" => pure (.scalar n)
  | _ => pure (.composite n)

partial def encExpr : PyExpr → Json
  | .none => Json.mkObj [("e", "none")]
  | .int v => Json.mkObj [("e", "int"), ("v", Json.num ⟨v, 0⟩)]
  | .float x => Json.mkObj [("e", "float"), ("v", x)]
  | .str s => Json.mkObj [("e", "str"), ("v", s)]
  | .bool b => Json.mkObj [("e", "bool"), ("v", b)]
  | .name s => Json.mkObj [("e", "name"), ("v", s)]
  | .list xs => Json.mkObj [("e", "list"), ("v", Json.arr (xs.map encExpr).toArray)]
  | .dict kvs => Json.mkObj [("e", "dict"), ("v", Json.arr (kvs.map fun (k, v) => Json.arr #[.str k, encExpr v]).toArray)]
  | .fieldFactory b => Json.mkObj [("e", "factory"), ("v", encExpr b)]
  | .fieldFactoryModel t a => Json.mkObj [("e", "factoryModel"), ("t", t), ("v", encExpr a)]

def encFieldDecl : Option FieldDecl → Json
  | none => Json.null
  | some f => Json.mkObj [("name", f.name), ("ann", f.ann.render),
      ("default", match f.default with | none => Json.null | some e => encExpr e)]

def encClass (c : ClassResult) : Json :=
  Json.mkObj [("name", c.name), ("fields", Json.arr (c.fields.map encFieldDecl).toArray)]

def encEnum (e : EnumDecl) : Json :=
  Json.mkObj [("name", e.name), ("members", pairArr e.members)]

/-! lexer -/

def kindName : Spec.GqlLexer.TokKind → String
  | .punct => "punct"
  | .name => "Name"
  | .int => "Int"
  | .float => "Float"
  | .string => "String"
  | .blockString => "BlockString"

def encLex : Except Spec.GqlLexer.LexErr (List Spec.GqlLexer.Tok) → Json
  | .error .syntax => Json.mkObj [("o", "syntax")]
  | .error .index => Json.mkObj [("o", "index")]
  | .ok toks => Json.mkObj [("o", "ok"),
      ("toks", Json.arr (toks.map fun t => Json.arr #[.str (kindName t.kind), .str (String.ofList t.text)]).toArray)]

def handle (j : Json) : Except String Json := do
  let op ← fieldStr j "op"
  match op with
  | "suffix" =>
    let n ← fieldStr j "name"
    pure (Json.mkObj [("suffix", suffix n), ("graphql", isGraphqlName n)])
  | "load" =>
    let src ← decSource (← field j "src")
    pure (encPathOutcome (schemaDocFromPath src))
  | "introspect" =>
    match j.getObjVal? "raised" with
    | .ok r =>
      let mro ← (← getList r "mro").mapM (·.getStr?)
      let e : Exc := ⟨mro, ← fieldStr r "msg"⟩
      pure ((encUrlOutcome (.raised e)).setObjVal! "listed" (listedFailureExc e)
        |>.setObjVal! "trigRequestExcUntyped" (trigRequestExcUntyped (.raised e)))
    | .error _ =>
      let status ← fieldNat j "status"
      let body ← match j.getObjVal? "body" with
        | .ok b => do pure (some (← dec b))
        | .error _ => pure none
      pure (encUrlOutcome (.response status body))
  | "source" =>
    let envPairs ← getPairs j "env"
    let env : String → Option String := fun n => envPairs.lookup n
    let cfg : SourceCfg := ⟨← fieldStr j "schemaPath", ← fieldStr j "remoteUrl", ← getPairs j "headers", ← fieldBool j "verify"⟩
    match chooseSourceStaged env (← fieldBool j "pathExists") cfg with
    | .error .noSource => pure (Json.mkObj [("o", "err"), ("kind", "noSource")])
    | .error .pathMissing => pure (Json.mkObj [("o", "err"), ("kind", "pathMissing")])
    | .error (.envMissing n) => pure (Json.mkObj [("o", "err"), ("kind", "envMissing"), ("name", n)])
    | .ok (.path p) => pure (Json.mkObj [("o", "path"), ("p", p)])
    | .ok (.remote c) => pure (Json.mkObj [("o", "remote"), ("url", c.url), ("headers", pairArr c.headers),
        ("verify", c.verify), ("flags", pairArr c.queryFlags),
        ("resolvedDollar", c.headers.any fun kv => startsWithDollar kv.2)])
  | "lex" =>
    -- graphql-core's lexer on one text; with "texts": on sep.join(texts) (sep defaults to the separator in the source)
    match j.getObjVal? "texts" with
    | .ok ts =>
      let texts ← (← ts.getArr?).toList.mapM (·.getStr?)
      let sep ← match j.getObjVal? "sep" with
        | .ok v => v.getStr?
        | .error _ => pure SchemaTextTables.schemaJoinSeparator
      pure (encLex (Spec.GqlLexer.lexChars (Spec.GqlLexer.joinWith sep.toList (texts.map (·.toList)))))
    | .error _ => pure (encLex (Spec.GqlLexer.lex (← fieldStr j "text")))
  | "urlcall" =>
    -- get_graphql_schema_from_url / introspect_remote_schema called directly: what they are given is what is sent
    let c := urlCall (← fieldStr j "url") (← getPairs j "headers") (← fieldBool j "verify")
    pure (Json.mkObj [("o", "remote"), ("url", c.url), ("headers", pairArr c.headers),
        ("verify", c.verify), ("flags", pairArr c.queryFlags)])
  | "inputs" =>
    let defs ← (← getList j "defs").mapM decDef
    let flag := queryFlag "input_value_deprecation"
    let m : Mode := if (← fieldStr j "mode") == "sdl" then .sdl else .intro flag
    pure (Json.mkObj [
      ("classes", Json.arr ((inputResults m defs).map encClass).toArray),
      ("enums", Json.arr ((enumResults defs).map encEnum).toArray),
      ("trigDefaultLost", trigDefaultLost defs),
      ("trigDeprecatedInput", trigDeprecatedInput flag defs),
      ("inputValueDeprecation", flag)])
  | _ => throw s!"unknown op {op}"

end C19Driver

def main : IO Unit := Ariadne.Wire.loop C19Driver.handle
