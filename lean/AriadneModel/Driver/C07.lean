/- Line-protocol driver for C07: result annotations over response shapes, pydantic validation / dump
   with call logs, scalar imports, the scalar imports of the input-types module.  (The whole `send` pipeline with its call log is an op of the
   C03 driver; harness/c07.py uses both.) -/
import AriadneModel.Driver.ArgWire
import AriadneModel.Model.ResultAnn
import AriadneModel.Model.ArgFindings
import AriadneModel.Model.InputImports

open Lean (Json)
open Ariadne Ariadne.Wire Ariadne.ArgWire Ariadne.Scalars Ariadne.ResultAnn Ariadne.PydLog Ariadne.ArgValues
open Ariadne.ArgFindings

def strs (xs : List String) : Json := .arr (xs.map Json.str).toArray

partial def decRAnn (j : Json) : Except String RAnn := do
  match ← fieldStr j "k" with
  | "leaf" => pure (.leaf (← decLeaf (← field j "l")) (← fieldBool j "opt"))
  | "list" => pure (.list (← decRAnn (← field j "item")) (← fieldBool j "opt"))
  | "obj" => do
    let fs ← (← arrOf j "fields").mapM fun f => do
      let pr ← f.getArr?
      if h : pr.size = 2 then pure (← pr[0].getStr?, ← decRAnn pr[1]) else throw "field pair"
    pure (.obj fs (← fieldBool j "opt"))
  | k => throw s!"RAnn kind {k}"

partial def encRAnn : RAnn → Json
  | .leaf l o => Json.mkObj [("k", "leaf"), ("l", encLeaf l), ("opt", o)]
  | .list i o => Json.mkObj [("k", "list"), ("item", encRAnn i), ("opt", o)]
  | .obj fs o => Json.mkObj [("k", "obj"), ("fields", .arr (fs.map fun (k, a) => Json.arr #[.str k, encRAnn a]).toArray), ("opt", o)]

partial def decRT (j : Json) : Except String RT := do
  match ← fieldStr j "k" with
  | "custom" => pure (.custom (← fieldStr j "scalar") (← fieldBool j "nn"))
  | "plain" => pure (.plain (← fieldStr j "py") (← fieldBool j "nn"))
  | "list" => pure (.list (← decRT (← field j "item")) (← fieldBool j "nn"))
  | "obj" => do
    let fs ← (← arrOf j "fields").mapM fun f => do
      let pr ← f.getArr?
      if h : pr.size = 2 then pure (← pr[0].getStr?, ← decRT pr[1]) else throw "field pair"
    pure (.obj fs (← fieldBool j "nn"))
  | k => throw s!"RT kind {k}"

def encParseCalls (cs : List ParseCall) : Json :=
  .arr (cs.map fun c => Json.arr #[.str c.fn, enc c.raw]).toArray

def optS : Option String → Json
  | some s => .str s
  | none => .null

def handle (j : Json) : Except String Json := do
  let op ← fieldStr j "op"
  match op with
  | "validate" =>
    let ann ← decRAnn (← field j "ann")
    let v ← fieldJ j "j"
    let r := validateLog (fun _ _ => true) ann v
    pure (Json.mkObj [("calls", encParseCalls r.calls), ("ok", r.ok)])
  | "resultAnn" =>
    let cfg ← decScalars j "scalars"
    let t ← decRT (← field j "shape")
    let base := Json.mkObj [("ann", encRAnn (annOfR cfg t))]
    match j.getObjVal? "j" with
    | .ok w => do
      let v ← dec w
      pure (base.mergeObj (Json.mkObj [("conforms", conforms t v), ("occurrences", encParseCalls (occurrences cfg t v)),
        ("calls", encParseCalls (validateLog (fun _ _ => true) (annOfR cfg t) v).calls)]))
    | .error _ => pure base
  | "dump" =>
    let ann ← decNAnn (← field j "ann")
    let v ← decAV (← field j "v")
    match dumpAnn tagFns ann v with
    | .ok (p, calls) => pure (Json.mkObj [("ok", Json.mkObj [("p", encPV p), ("calls", encCalls calls)])])
    | .error e => pure (Json.mkObj [("error", e)])
  | "imports" =>
    let d : ScalarData := { type_ := ← fieldStr j "type", serialize := optStr j "serialize", parse := optStr j "parse",
                            import_ := optStr j "import" }
    pure (Json.mkObj [("imports", .arr ((scalarImports d).map fun i => Json.mkObj [("module", i.module), ("names", strs i.names)]).toArray),
      ("typeName", d.typeName), ("parseName", optS d.parseName), ("serializeName", optS d.serializeName),
      ("namesToImport", strs d.namesToImport), ("trigImportKeyDotted", trigImportKeyDotted d)])
  | "inputsModule" =>
    -- InputTypesGenerator(schema, custom_scalars).generate(types_to_include = roots | None)
    let schema ← decISchema (← field j "schema")
    let cfg ← decScalars j "scalars"
    let roots : Option (List String) ← match j.getObjVal? "roots" with
      | .ok (.arr xs) => do pure (some (← xs.toList.mapM fun x => x.getStr?))
      | _ => pure none
    match InputImports.generate schema cfg roots with
    | .ok m => pure (Json.mkObj [("ok", Json.mkObj [("classes", strs m.classes), ("usedScalars", strs m.usedScalars),
        ("imports", .arr (m.scalarImports.map fun i => Json.mkObj [("module", i.module), ("names", strs i.names)]).toArray)])])
    | .error (.keyError sc) => pure (Json.mkObj [("error", "KeyError"), ("scalar", sc)])
    | .error .recursion => pure (Json.mkObj [("error", "RecursionError")])
  | _ => throw s!"unknown op {op}"

def main : IO Unit := Ariadne.Wire.loop handle
