/- Line-protocol driver for C07: result annotations over response shapes, pydantic validation / dump
   with call logs, scalar imports, the scalar imports of the input-types module.  (The whole `send` pipeline with its call log is an op of the
   C03 driver; harness/c07.py uses both.) -/
import AriadneModel.Driver.ArgWire
import AriadneModel.Model.ResultAnn
import AriadneModel.Model.ArgFindings
import AriadneModel.Model.InputImports
import AriadneModel.Spec.PydUnionLog
import AriadneModel.Model.ClientImports

open Lean (Json)
open Ariadne Ariadne.Wire Ariadne.ArgWire Ariadne.Scalars Ariadne.ResultAnn Ariadne.PydLog Ariadne.ArgValues
open Ariadne.ArgFindings
open Ariadne.ResultUnion Ariadne.PydUnionLog

def strs (xs : List String) : Json := .arr (xs.map Json.str).toArray

partial def decRAnn (j : Json) : Except String RAnn := do
  match ← fieldStr j "k" with
  | "leaf" => pure (.leaf (← decLeaf (← field j "l")) (← fieldBool j "opt"))
  | "list" => pure (.list (← decRAnn (← field j "item")) (← fieldBool j "opt"))
  | "obj" => do
    let fs ← (← arrOf j "fields").mapM fun f => do
      let pr ← f.getArr?
      if h : pr.size = 2 then pure (← pr[0].getStr?, ← decRAnn pr[1]) else throw "field pair"
    pure (.obj fs (← fieldBool j "opt"))
  | k => throw s!"RAnn kind {k}"

partial def encRAnn : RAnn → Json
  | .leaf l o => Json.mkObj [("k", "leaf"), ("l", encLeaf l), ("opt", o)]
  | .list i o => Json.mkObj [("k", "list"), ("item", encRAnn i), ("opt", o)]
  | .obj fs o => Json.mkObj [("k", "obj"), ("fields", .arr (fs.map fun (k, a) => Json.arr #[.str k, encRAnn a]).toArray), ("opt", o)]

partial def decRT (j : Json) : Except String RT := do
  match ← fieldStr j "k" with
  | "custom" => pure (.custom (← fieldStr j "scalar") (← fieldBool j "nn"))
  | "plain" => pure (.plain (← fieldStr j "py") (← fieldBool j "nn"))
  | "list" => pure (.list (← decRT (← field j "item")) (← fieldBool j "nn"))
  | "obj" => do
    let fs ← (← arrOf j "fields").mapM fun f => do
      let pr ← f.getArr?
      if h : pr.size = 2 then pure (← pr[0].getStr?, ← decRT pr[1]) else throw "field pair"
    pure (.obj fs (← fieldBool j "nn"))
  | k => throw s!"RT kind {k}"

def encParseCalls (cs : List ParseCall) : Json :=
  .arr (cs.map fun c => Json.arr #[.str c.fn, enc c.raw]).toArray

def optS : Option String → Json
  | some s => .str s
  | none => .null

/-! annotations / shapes with unions (Model/ResultUnion.lean):
    PAnn  {"k":"leaf","l":Leaf} | {"k":"literal","vs":[s]} | {"k":"optional","a":PAnn} | {"k":"list","a":PAnn}
          | {"k":"model","fields":[[alias,PAnn]]} | {"k":"union"|"dunion","members":[[[alias,PAnn]]]}
    RTU   {"k":"custom","scalar":s,"nn":b} | {"k":"plain","py":s,"nn":b} | {"k":"tag","vals":[s]}
          | {"k":"list","item":RTU,"nn":b} | {"k":"obj","fields":[[key,RTU]],"nn":b} | {"k":"abs","members":[[[key,RTU]]],"nn":b} -/

def strList (j : Json) (k : String) : Except String (List String) := do
  (← arrOf j k).mapM fun x => x.getStr?

mutual
  partial def decPAnn (j : Json) : Except String PAnn := do
    match ← fieldStr j "k" with
    | "leaf" => pure (.leaf (← decLeaf (← field j "l")))
    | "literal" => pure (.literal (← strList j "vs"))
    | "optional" => pure (.optional (← decPAnn (← field j "a")))
    | "list" => pure (.list (← decPAnn (← field j "a")))
    | "model" => pure (.model (← decPFlds (← arrOf j "fields")))
    | "union" => pure (.union (← decPMems (← arrOf j "members")))
    | "dunion" => pure (.dunion (← decPMems (← arrOf j "members")))
    | k => throw s!"PAnn kind {k}"
  partial def decPFlds : List Json → Except String PFlds
    | [] => pure .nil
    | f :: rest => do
      let pr ← f.getArr?
      if h : pr.size = 2 then pure (.cons (← pr[0].getStr?) (← decPAnn pr[1]) (← decPFlds rest)) else throw "field pair"
  partial def decPMems : List Json → Except String PMems
    | [] => pure .nil
    | m :: rest => do pure (.cons (← decPFlds (← m.getArr?).toList) (← decPMems rest))
end

mutual
  partial def encPAnn : PAnn → Json
    | .leaf l => Json.mkObj [("k", "leaf"), ("l", encLeaf l)]
    | .literal vs => Json.mkObj [("k", "literal"), ("vs", strs vs)]
    | .optional a => Json.mkObj [("k", "optional"), ("a", encPAnn a)]
    | .list a => Json.mkObj [("k", "list"), ("a", encPAnn a)]
    | .model fs => Json.mkObj [("k", "model"), ("fields", .arr (encPFlds fs).toArray)]
    | .union ms => Json.mkObj [("k", "union"), ("members", .arr (encPMems ms).toArray)]
    | .dunion ms => Json.mkObj [("k", "dunion"), ("members", .arr (encPMems ms).toArray)]
  partial def encPFlds : PFlds → List Json
    | .nil => []
    | .cons k a rest => Json.arr #[.str k, encPAnn a] :: encPFlds rest
  partial def encPMems : PMems → List Json
    | .nil => []
    | .cons fs rest => Json.arr (encPFlds fs).toArray :: encPMems rest
end

mutual
  partial def decRTU (j : Json) : Except String RTU := do
    match ← fieldStr j "k" with
    | "custom" => pure (.custom (← fieldStr j "scalar") (← fieldBool j "nn"))
    | "plain" => pure (.plain (← fieldStr j "py") (← fieldBool j "nn"))
    | "tag" => pure (.tag (← strList j "vals"))
    | "list" => pure (.list (← decRTU (← field j "item")) (← fieldBool j "nn"))
    | "obj" => pure (.obj (← decFlds (← arrOf j "fields")) (← fieldBool j "nn"))
    | "abs" => pure (.abs (← decMems (← arrOf j "members")) (← fieldBool j "nn"))
    | k => throw s!"RTU kind {k}"
  partial def decFlds : List Json → Except String Flds
    | [] => pure .nil
    | f :: rest => do
      let pr ← f.getArr?
      if h : pr.size = 2 then pure (.cons (← pr[0].getStr?) (← decRTU pr[1]) (← decFlds rest)) else throw "field pair"
  partial def decMems : List Json → Except String Mems
    | [] => pure .nil
    | m :: rest => do pure (.cons (← decFlds (← m.getArr?).toList) (← decMems rest))
end

def encImports (is : List Import) : Json :=
  .arr (is.map fun i => Json.mkObj [("module", i.module), ("names", strs i.names)]).toArray

def handle (j : Json) : Except String Json := do
  let op ← fieldStr j "op"
  match op with
  | "validate" =>
    let ann ← decRAnn (← field j "ann")
    let v ← fieldJ j "j"
    let r := validateLog (fun _ _ => true) ann v
    pure (Json.mkObj [("calls", encParseCalls r.calls), ("ok", r.ok)])
  | "resultAnn" =>
    let cfg ← decScalars j "scalars"
    let t ← decRT (← field j "shape")
    let base := Json.mkObj [("ann", encRAnn (annOfR cfg t))]
    match j.getObjVal? "j" with
    | .ok w => do
      let v ← dec w
      pure (base.mergeObj (Json.mkObj [("conforms", conforms t v), ("occurrences", encParseCalls (occurrences cfg t v)),
        ("calls", encParseCalls (validateLog (fun _ _ => true) (annOfR cfg t) v).calls)]))
    | .error _ => pure base
  | "validateU" =>
    -- Spec.PydUnionLog on an annotation with (tagged / plain) unions of model classes
    let ann ← decPAnn (← field j "ann")
    let v ← fieldJ j "j"
    let r := validateU (fun _ _ => true) ann v
    pure (Json.mkObj [("calls", encParseCalls r.calls), ("ok", r.ok)])
  | "resultAnnU" =>
    -- the field annotation of a shape with abstract positions (+ raw annotation before the discriminator walk),
    -- the scalar imports of the module, and on a response value: conformance, entitled calls, calls of the validation
    let cfg ← decScalars j "scalars"
    let t ← decRTU (← field j "shape")
    let imps : Json := match resultImports cfg t with
      | .ok is => Json.mkObj [("ok", encImports is)]
      | .error sc => Json.mkObj [("error", "KeyError"), ("scalar", sc)]
    let base := Json.mkObj [("ann", encPAnn (annField cfg t)), ("raw", encPAnn (rawAnn cfg t)),
      ("usedScalars", strs (usedScalarsU cfg t)), ("imports", imps)]
    match j.getObjVal? "j" with
    | .ok w => do
      let v ← dec w
      pure (base.mergeObj (Json.mkObj [("conforms", conformsU t v), ("occurrences", encParseCalls (occurrencesU cfg t v)),
        ("calls", encParseCalls (validateU (fun _ _ => true) (annField cfg t) v).calls)]))
    | .error _ => pure base
  | "clientImports" =>
    -- ArgumentsGenerator.generate for every operation (one generator), then ClientGenerator.generate's scalar imports
    let kinds ← (← arrOf j "kinds").mapM fun p => do
      let pr ← p.getArr?
      if h : pr.size = 2 then pure (← pr[0].getStr?, ← GqlWire.kind (← pr[1].getStr?)) else throw "kind pair"
    let env : Arguments.Env := { kind := fun n => (kinds.find? (·.1 == n)).map (·.2), scalars := ← decScalars j "scalars",
                                 snake := GqlWire.boolD j "snake" true }
    let ops ← (← arrOf j "ops").mapM fun o => do
      (← o.getArr?).toList.mapM fun d => do
        pure ({ name := ← fieldStr d "name", type := ← GqlWire.typeRef (← field d "type") } : Arguments.VarDef)
    match ClientImports.generateAll env ops {} with
    | .error _ => pure (Json.mkObj [("error", "generation")])
    | .ok st =>
      match ClientImports.clientScalarImports env.scalars st.usedScalars with
      | .ok is => pure (Json.mkObj [("usedScalars", strs st.usedScalars), ("imports", encImports is)])
      | .error sc => pure (Json.mkObj [("error", "KeyError"), ("scalar", sc)])
  | "dump" =>
    let ann ← decNAnn (← field j "ann")
    let v ← decAV (← field j "v")
    match dumpAnn tagFns ann v with
    | .ok (p, calls) => pure (Json.mkObj [("ok", Json.mkObj [("p", encPV p), ("calls", encCalls calls)])])
    | .error e => pure (Json.mkObj [("error", e)])
  | "imports" =>
    let d : ScalarData := { type_ := ← fieldStr j "type", serialize := optStr j "serialize", parse := optStr j "parse",
                            import_ := optStr j "import" }
    pure (Json.mkObj [("imports", .arr ((scalarImports d).map fun i => Json.mkObj [("module", i.module), ("names", strs i.names)]).toArray),
      ("typeName", d.typeName), ("parseName", optS d.parseName), ("serializeName", optS d.serializeName),
      ("namesToImport", strs d.namesToImport), ("trigImportKeyDotted", trigImportKeyDotted d)])
  | "inputsModule" =>
    -- InputTypesGenerator(schema, custom_scalars).generate(types_to_include = roots | None)
    let schema ← decISchema (← field j "schema")
    let cfg ← decScalars j "scalars"
    let roots : Option (List String) ← match j.getObjVal? "roots" with
      | .ok (.arr xs) => do pure (some (← xs.toList.mapM fun x => x.getStr?))
      | _ => pure none
    match InputImports.generate schema cfg roots with
    | .ok m => pure (Json.mkObj [("ok", Json.mkObj [("classes", strs m.classes), ("usedScalars", strs m.usedScalars),
        ("imports", .arr (m.scalarImports.map fun i => Json.mkObj [("module", i.module), ("names", strs i.names)]).toArray)])])
    | .error (.keyError sc) => pure (Json.mkObj [("error", "KeyError"), ("scalar", sc)])
    | .error .recursion => pure (Json.mkObj [("error", "RecursionError")])
  | _ => throw s!"unknown op {op}"

def main : IO Unit := Ariadne.Wire.loop handle
