/- Line-protocol driver for C03: signature / variables-dict IR of the method generator, Python call
   binding, GraphQL variable coercion, input-class attributes per schema source, construction of input-model
   instances (`Cls(**kw)`), and the whole `send` pipeline. -/
import AriadneModel.Driver.ArgWire
import AriadneModel.Model.ArgFindings
import AriadneModel.Model.ArgConstruct
import AriadneModel.Model.ArgHeap

open Lean (Json)
open Ariadne Ariadne.Wire Ariadne.ArgWire Ariadne.Scalars Ariadne.Coerce Ariadne.ArgValues
open Ariadne.Arguments Ariadne.ClientMethod Ariadne.ArgSend Ariadne.ArgFindings

def strs (xs : List String) : Json := .arr (xs.map Json.str).toArray

def decKinds (j : Json) : Except String (String → Option Gql.Kind) := do
  let ps ← (← arrOf j "kinds").mapM fun p => do
    let pr ← p.getArr?
    if h : pr.size = 2 then pure (← pr[0].getStr?, ← GqlWire.kind (← pr[1].getStr?)) else throw "kind pair"
  pure fun n => (ps.find? (·.1 == n)).map (·.2)

def decEnv (j : Json) : Except String Env := do
  pure { kind := ← decKinds j, scalars := ← decScalars j "scalars", snake := GqlWire.boolD j "snake" true }

def decDefs (j : Json) : Except String (List VarDecl) := do
  (← arrOf j "defs").mapM fun d => do
    let dflt ← match d.getObjVal? "default" with
      | .ok x => do pure (some (← dec x))
      | .error _ => pure none
    pure ({ name := ← fieldStr d "name", type := ← GqlWire.typeRef (← field d "type"), default := dflt } : VarDecl)

def encArg (a : Arg) : Json := Json.mkObj [("py", a.py), ("ann", encNAnn a.ann), ("optional", a.optional)]

def encDictVal : DictVal → Json
  | .name p => Json.mkObj [("k", "name"), ("py", p)]
  | .call f p => Json.mkObj [("k", "call"), ("fn", f), ("py", p)]

def encGenErr : GenErr → Json
  | .parsing m => Json.mkObj [("error", "refusal:ParsingError"), ("msg", m)]
  | .notSupported m => Json.mkObj [("error", "refusal:NotSupported"), ("msg", m)]

def encKind : MKind → String
  | .sync => "sync"
  | .async => "async"
  | .subscription => "subscription"

def encTriggers (env : Env) (defs : List VarDef) : Json :=
  Json.mkObj [("trigSelf", trigSelf env.snake defs), ("trigKwargs", trigKwargs env.snake defs),
    ("trigMerge", trigMerge env.snake defs), ("trigQueryClobber", trigQueryClobber env.snake defs),
    ("trigShadow", trigShadow env defs), ("trigMangled", trigMangled env.snake defs), ("trigSerializeNullable", trigSerializeNullable env defs),
    ("trigSerializeList", trigSerializeList env defs)]

/-- "source": "sdl" (default) | "intro" -/
def decSource (j : Json) : ArgConstruct.Source :=
  match optStr j "source" with
  | some "intro" => .intro
  | _ => .sdl

/-! programs over the caller's objects (Model/ArgHeap.lean)
   CVal  {"ref": a} | {"imm": AV}
   CObj  {"k":"list","xs":[CVal]} | {"k":"inst","cls":s,"fields":[{"key":s,"ann":NAnn,"v":CVal}]}
   Step  {"k":"call","opName","opText","defs","args":[CVal]} | {"k":"setField","a","i","v"} | {"k":"setItem","a","i","v"}
         | {"k":"append","a","v"} -/

def decCVal (j : Json) : Except String ArgHeap.CVal := do
  match j.getObjVal? "ref" with
  | .ok a => do pure (.ref (← a.getNat?))
  | .error _ => do pure (.imm (← decAV (← field j "imm")))

def decCObj (j : Json) : Except String ArgHeap.CObj := do
  match ← fieldStr j "k" with
  | "list" => do pure (.list (← (← arrOf j "xs").mapM decCVal))
  | "inst" => do
    let fs ← (← arrOf j "fields").mapM fun f => do
      pure (({ key := ← fieldStr f "key", ann := ← decNAnn (← field f "ann") } : FieldKey), ← decCVal (← field f "v"))
    pure (.inst (← fieldStr j "cls") fs)
  | k => throw s!"object kind {k}"

def natField (j : Json) (k : String) : Except String Nat := do (← field j k).getNat?

/-- a value of the caller in the snapshot of the store: a reference, "not set", a tree nobody else
    holds (not compared), or a leaf by its JSON form -/
def encCVal : ArgHeap.CVal → Json
  | .ref a => Json.mkObj [("ref", (a : Nat))]
  | .imm .unset => Json.mkObj [("unset", true)]
  | .imm (.list _) => Json.mkObj [("tree", "list")]
  | .imm (.model _ _) => Json.mkObj [("tree", "model")]
  | .imm .none => Json.mkObj [("imm", enc .null)]
  | .imm (.bool b) => Json.mkObj [("imm", enc (.bool b))]
  | .imm (.int i) => Json.mkObj [("imm", enc (.num i 0))]
  | .imm (.float m e) => Json.mkObj [("imm", enc (.num m e))]
  | .imm (.str x) => Json.mkObj [("imm", enc (.str x))]
  | .imm (.enum m) => Json.mkObj [("imm", enc (.str m))]
  | .imm (.custom _ j) => Json.mkObj [("imm", enc j)]

def encCObj : ArgHeap.CObj → Json
  | .list xs => Json.mkObj [("k", "list"), ("xs", .arr (xs.map encCVal).toArray)]
  | .inst cls fs => Json.mkObj [("k", "inst"), ("cls", cls), ("fields", .arr (fs.map fun (k, v) => Json.mkObj [("key", k.key), ("v", encCVal v)]).toArray)]
  | .plist _ => Json.mkObj [("k", "client-list")]

def encPyErr : PyCall.PyErr → Json
  | .syntaxError m => Json.mkObj [("error", "SyntaxError"), ("msg", m)]
  | .typeError m => Json.mkObj [("error", "TypeError"), ("msg", m)]
  | .raised m => Json.mkObj [("error", "raised"), ("msg", m)]

def handle (j : Json) : Except String Json := do
  let op ← fieldStr j "op"
  match op with
  | "signature" =>
    let env ← decEnv j
    let defs := (← decDefs j).map (·.toVarDef)
    let opType ← match ← fieldStr j "opType" with
      | "query" => pure OpType.query | "mutation" => pure OpType.mutation | "subscription" => pure OpType.subscription
      | k => throw s!"opType {k}"
    match addMethod env opType (optStr j "opName") defs "m" "R" "" (GqlWire.boolD j "async" true) {} with
    | .error e => pure (encGenErr e)
    | .ok (m, st) =>
      pure (Json.mkObj [("args", .arr (m.out.params.map encArg).toArray),
        ("dict", .arr (m.out.dict.map fun (k, v) => Json.arr #[.str k, encDictVal v]).toArray),
        ("locals", Json.mkObj [("query", m.locals.query), ("variables", m.locals.variables),
          ("response", m.locals.response), ("data", m.locals.data)]),
        ("kind", encKind m.kind), ("opName", m.opName),
        ("usedInputs", strs st.usedInputs), ("usedEnums", strs st.usedEnums), ("usedScalars", strs st.usedScalars),
        ("triggers", encTriggers env defs)])
  | "pycall" =>
    let params ← (← arrOf j "params").mapM fun p => do
      let pr ← p.getArr?
      if h : pr.size = 2 then pure (⟨← pr[0].getStr?, ← pr[1].getBool?⟩ : PyCall.Param) else throw "param pair"
    let given ← (← arrOf j "given").mapM fun g => do let s ← g.getStr?; pure (s, s)
    match PyCall.checkDef (← fieldStr j "self") params (← fieldStr j "kwarg") with
    | .error e => pure (encPyErr e)
    | .ok () =>
      match PyCall.bindCall (← fieldStr j "self") params "<default>" given with
      | .error e => pure (encPyErr e)
      | .ok (env, extra) =>
        pure (Json.mkObj [("env", .arr (env.map fun (k, v) => Json.arr #[.str k, .str v]).toArray), ("extra", strs (extra.map (·.1)))])
  | "coerce" =>
    let s ← decISchema (← field j "schema")
    let defs ← (← arrOf j "defs").mapM decIField
    let inputs ← match ← fieldJ j "inputs" with
      | .obj kvs => pure kvs
      | _ => throw "inputs: object expected"
    match coerceVars s defs inputs with
    | .ok out => pure (Json.mkObj [("ok", encKvsJ out)])
    | .error _ => pure (Json.mkObj [("error", true)])
  | "inputClass" =>
    let s ← decISchema (← field j "schema")
    let scalars ← decScalars j "scalars"
    let snake := GqlWire.boolD j "snake" true
    let src := decSource j
    let out ← (← arrOf j "fields").mapM fun f => do
      let fd ← decIField f
      let d := InputFields.fieldDecl snake scalars (InputFields.kindOf s) fd.name fd.type
      let dk := match ArgConstruct.classDefault src d.ann fd.default fd.type with
        | .required => "required" | .none => "none" | .value => "value"
      pure (Json.mkObj [("py", d.py), ("alias", match d.alias with | some a => Json.str a | none => Json.null),
        ("ann", encNAnn d.ann), ("default", dk)])
    pure (.arr out.toArray)
  | "construct" =>
    -- `Cls(**kw)` on the class generated for input type "cls" from a schema obtained by "source"
    let cfg : Cfg := { schema := ← decISchema (← field j "schema"), scalars := ← decScalars j "scalars",
                       snake := GqlWire.boolD j "snake" true }
    let kw ← (← arrOf j "kw").mapM fun p => do
      let pr ← p.getArr?
      if h : pr.size = 2 then pure (← pr[0].getStr?, ← decAV pr[1]) else throw "kw pair"
    match PydInit.initModel (ArgConstruct.classFields (decSource j) cfg (← fieldStr j "cls")) kw with
    | .ok inst =>
      pure (Json.mkObj [("ok", Json.mkObj [("keys", strs (inst.map (·.1.key))),
        ("set", strs ((inst.filter (fun p => !p.2.isUnset)).map (·.1.key)))])])
    | .error e => pure (Json.mkObj [("error", Json.mkObj [("missing", strs e.missing), ("invalid", strs e.invalid)])])
  | "intended" =>
    let cfg : Cfg := { schema := ← decISchema (← field j "schema"), scalars := ← decScalars j "scalars",
                       snake := GqlWire.boolD j "snake" true }
    let defs := (← decDefs j).map (·.toIField)
    let vals ← (← arrOf j "values").mapM decAV
    let rec go : List IField → List AV → Bool × List (String × J)
      | d :: ds, v :: vs =>
        let (ok, rest) := go ds vs
        if v.isUnset then
          (ok && !d.type.nonNull, match d.default with | some x => (d.name, x) :: rest | none => rest)
        else (ok && hasType cfg d.type v, (d.name, intended cfg tagFns v) :: rest)
      | _, _ => (true, [])
    let (ok, out) := go defs vals
    pure (Json.mkObj [("valid", ok), ("intended", encKvsJ out),
      ("lost", ArgConstruct.trigDefaultLostIntro (decSource j) cfg vals)])
  | "send" =>
    let env ← decEnv j
    let defs ← decDefs j
    let vals ← (← arrOf j "values").mapM decAV
    match send env tagFns (GqlWire.boolD j "async" true) (← fieldStr j "opName") (← fieldStr j "opText") defs vals with
    | .ok r => pure (Json.mkObj [("ok", Json.mkObj [("variables", encKvsJ r.variables), ("calls", encCalls r.calls), ("query", r.query)])])
    | .error (.generation e) => pure (encGenErr e)
    | .error (.python e) => pure (encPyErr e)
    | .error .serialization => pure (Json.mkObj [("error", "serialization")])
  | "program" =>
    let env ← decEnv j
    let store ← (← arrOf j "store").mapM decCObj
    let fuel ← natField j "fuel"
    let steps ← (← arrOf j "steps").mapM fun st => do
      match ← fieldStr st "k" with
      | "call" => do
        pure (ArgHeap.Step.call ⟨← fieldStr st "opName", ← fieldStr st "opText", ← decDefs st, ← (← arrOf st "args").mapM decCVal⟩)
      | "setField" => do pure (.setField (← natField st "a") (← natField st "i") (← decCVal (← field st "v")))
      | "setItem" => do pure (.setItem (← natField st "a") (← natField st "i") (← decCVal (← field st "v")))
      | "append" => do pure (.append (← natField st "a") (← decCVal (← field st "v")))
      | k => throw s!"step kind {k}"
    let async := GqlWire.boolD j "async" true
    let reqs := ArgHeap.runC env tagFns async fuel store steps
    let after := ArgHeap.storeWith (ArgHeap.convertValueC tagFns fuel) store steps
    let encReq : Option (Except SendErr Request) → Json
      | none => Json.null
      | some (.ok r) => Json.mkObj [("ok", Json.mkObj [("variables", encKvsJ r.variables), ("calls", encCalls r.calls)])]
      | some (.error (.generation e)) => encGenErr e
      | some (.error (.python e)) => encPyErr e
      | some (.error .serialization) => Json.mkObj [("error", "serialization")]
    pure (Json.mkObj [("requests", .arr (reqs.map encReq).toArray),
      ("store", .arr ((after.take store.length).map encCObj).toArray)])
  | _ => throw s!"unknown op {op}"

def main : IO Unit := Ariadne.Wire.loop handle
