/- JSON decoding of the shared GraphQL vocabulary (schemas, documents) for the drivers.
   Twin of harness/gqlwire.py.  Driver glue: trusted base, no theorem is stated about it. -/
import Lean.Data.Json
import AriadneModel.Model.Gql

namespace Ariadne.GqlWire
open Lean (Json)
open Ariadne.Gql

def arr (j : Json) (k : String) : Except String (List Json) := do
  match j.getObjVal? k with
  | .ok (.arr xs) => pure xs.toList
  | .ok .null => pure []
  | .ok _ => throw s!"{k}: array expected"
  | .error _ => pure []

def str (j : Json) (k : String) : Except String String := do (← j.getObjVal? k).getStr?
def optStr (j : Json) (k : String) : Except String (Option String) :=
  match j.getObjVal? k with
  | .ok (.str s) => pure (some s)
  | _ => pure none
def nat (j : Json) (k : String) : Except String Nat :=
  match j.getObjVal? k with
  | .ok v => v.getNat?
  | .error _ => pure 0
def boolD (j : Json) (k : String) (d : Bool) : Bool :=
  match j.getObjVal? k with
  | .ok (.bool b) => b
  | _ => d
def strList (j : Json) (k : String) : Except String (List String) := do
  (← arr j k).mapM fun x => x.getStr?

partial def typeRef (j : Json) : Except String TypeRef := do
  match j with
  | .arr #[.str "named", .str n] => pure (.named n)
  | .arr #[.str "list", t] => do pure (.list (← typeRef t))
  | .arr #[.str "nonnull", t] => do pure (.nonNull (← typeRef t))
  | _ => throw "typeRef"

def kind (s : String) : Except String Kind :=
  match s with
  | "scalar" => pure .scalar | "object" => pure .object | "interface" => pure .interface
  | "union" => pure .union | "enum" => pure .enum | "input" => pure .input
  | _ => throw s!"kind {s}"

def typeDef (j : Json) : Except String TypeDef := do
  let fields ← (← arr j "fields").mapM fun f => do
    let args ← (← arr f "args").mapM fun a => do
      pure ({ name := ← str a "name", type := ← typeRef (← a.getObjVal? "type"), hasDefault := boolD a "hasDefault" false } : ArgDef)
    pure ({ name := ← str f "name", type := ← typeRef (← f.getObjVal? "type"), args := args } : FieldDef)
  let inputFields ← (← arr j "inputFields").mapM fun f => do
    pure ({ name := ← str f "name", type := ← typeRef (← f.getObjVal? "type"), hasDefault := boolD f "hasDefault" false } : InputFieldDef)
  pure { name := ← str j "name", kind := ← kind (← str j "kind"), fields := fields,
         interfaces := ← strList j "interfaces", members := ← strList j "members",
         values := ← strList j "values", inputFields := inputFields }

def schema (j : Json) : Except String Schema := do
  let types ← (← arr j "types").mapM typeDef
  pure { types := types, query := ← optStr j "query", mutation := ← optStr j "mutation", subscription := ← optStr j "subscription" }

def directive (j : Json) : Except String Directive := do
  let args ← (← arr j "args").mapM fun a => do
    pure (← str a "name", ← optStr a "str")
  pure { name := ← str j "name", args := args }

partial def selection (j : Json) : Except String Selection := do
  let dirs ← (← arr j "dirs").mapM directive
  match ← str j "k" with
  | "field" => do
    let sub ← (← arr j "sel").mapM selection
    pure (.field (← optStr j "alias") (← str j "name") dirs (← nat j "sid") sub)
  | "spread" => pure (.spread (← str j "name") dirs)
  | "inline" => do
    let sub ← (← arr j "sel").mapM selection
    pure (.inline (← optStr j "on") dirs (← nat j "sid") sub)
  | k => throw s!"selection kind {k}"

def fragment (j : Json) : Except String Fragment := do
  pure { name := ← str j "name", on := ← str j "on", dirs := ← (← arr j "dirs").mapM directive,
         sid := ← nat j "sid", sel := ← (← arr j "sel").mapM selection }

def operation (j : Json) : Except String Operation := do
  let k ← match ← str j "kind" with
    | "query" => pure OpKind.query | "mutation" => pure OpKind.mutation | "subscription" => pure OpKind.subscription
    | k => throw s!"op kind {k}"
  pure { kind := k, name := ← optStr j "name", dirs := ← (← arr j "dirs").mapM directive,
         sid := ← nat j "sid", sel := ← (← arr j "sel").mapM selection }

end Ariadne.GqlWire
