/- Line-protocol driver for C10: runs the order models on the harness's inputs.
   Set iteration orders recorded from the real interpreter arrive as explicit listings; the
   enumeration oracle of the driver replays them (`enumFrom order`). Driver glue, no theorems. -/
import AriadneModel.Driver.Wire
import AriadneModel.Model.Order
import AriadneModel.Model.OrderResult
import AriadneModel.Spec.Isort

open Lean (Json)
open Ariadne Ariadne.Wire Ariadne.Order Ariadne.Isort

def strs (j : Json) : Except String (List String) := do
  (← j.getArr?).toList.mapM (·.getStr?)

def fieldStrs (j : Json) (k : String) : Except String (List String) := do strs (← j.getObjVal? k)

def fieldStrsD (j : Json) (k : String) : Except String (List String) :=
  match j.getObjVal? k with
  | .ok v => strs v
  | .error _ => pure []

def pairs {β} (f : Json → Except String β) (j : Json) : Except String (List (String × β)) := do
  (← j.getArr?).toList.mapM fun it => do
    let pr ← it.getArr?
    if h : pr.size = 2 then
      pure (← pr[0].getStr?, ← f pr[1])
    else throw "pair expected"

def decImport (j : Json) : Except String ImportFrom := do
  pure ⟨← fieldNat j "level", ← fieldStr j "module", ← fieldStrs j "names"⟩

def decImports (j : Json) : Except String (List ImportFrom) := do
  (← j.getArr?).toList.mapM decImport

def decDefGen (j : Json) : Except String DefGen := do
  pure { classes := ← fieldStrs j "classes", imports := ← decImports (← j.getObjVal? "imports"),
         publicNames := ← fieldStrs j "publicNames", usedEnums := ← fieldStrs j "usedEnums",
         mixins := ← fieldStrs j "mixins" }

def encStrs (xs : List String) : Json := Json.arr (xs.map Json.str).toArray

def encImport (s : ImportFrom) : Json :=
  Json.mkObj [("level", s.level), ("module", s.module), ("names", encStrs s.names)]

def encErr : Err → Json
  | .keyError k => Json.mkObj [("err", "KeyError"), ("key", k)]
  | .valueError k => Json.mkObj [("err", "ValueError"), ("key", k)]
  | .isADirectory p => Json.mkObj [("err", "IsADirectoryError"), ("key", encStrs p)]
  | .fuel => Json.mkObj [("err", "model-fuel")]

def encRes {α} (f : α → Json) : Except Err α → Json
  | .ok v => Json.mkObj [("ok", f v)]
  | .error e => encErr e

def encSummary (s : Summary) : Json :=
  Json.arr (s.map fun (m, ns) => Json.arr #[Json.str m, encStrs ns]).toArray

/-- replay of a recorded iteration order: elements of `s` in the order they have in `order`
    (elements the record does not mention keep their listing order, at the end) -/
def enumFrom (order : List Name) : EnumOracle := fun s =>
  order.filter (fun x => s.contains x) ++ s.filter (fun x => !order.contains x)

def decEntry (j : Json) : Except String Entry := do
  pure ⟨← fieldStrs j "path", ← fieldBool j "isDir", ← fieldStr j "content"⟩

def decTarget (j : Json) : Except String PluginTarget := do
  match j.getObjVal? "module" with
  | .ok ms => pure (.module (← pairs (·.getStr?) ms))
  | .error _ =>
    match j.getObjVal? "cls" with
    | .ok c => pure (.cls (← c.getStr?))
    | .error _ => pure (.refused (← fieldStr j "refused"))

def encPairs (xs : List (Name × List Name)) : Json :=
  Json.arr (xs.map fun (k, vs) => Json.arr #[Json.str k, encStrs vs]).toArray

def handle (j : Json) : Except String Json := do
  let op ← fieldStr j "op"
  match op with
  | "sortedFragments" =>
    let names ← fieldStrs j "names"
    let deps ← pairs strs (← j.getObjVal? "deps")
    let pre := (j.getObjValAs? Bool "prefix").toOption.getD false
    pure (encRes encStrs (if pre then sortedFragmentsNamesPreFix id names deps else sortedFragmentsNames id names deps))
  | "rebuild" =>
    pure (encRes encStrs (rebuildCalls (← fieldStrs j "top") (← fieldStrs j "classNames")))
  | "generateFragments" =>
    let defs ← pairs decDefGen (← j.getObjVal? "defs")
    let exclude ← fieldStrs j "exclude"
    let order ← fieldStrs j "order"
    pure (encRes (fun (o : FragOut) => Json.mkObj [
      ("imports", Json.arr (o.module.imports.map encImport).toArray),
      ("classes", encStrs o.module.classes), ("rebuilds", encStrs o.module.rebuilds),
      ("publicNames", encStrs o.publicNames), ("usedEnums", encStrs o.usedEnums)])
      (generateFragments (enumFrom order) defs exclude))
  | "opImports" =>
    let imports ← decImports (← j.getObjVal? "imports")
    let mixins ← fieldStrs j "mixins"
    let table ← pairs (·.getStr?) (← j.getObjVal? "pascal")
    let g : DefGen := { classes := [], imports := imports, publicNames := [], usedEnums := [], mixins := mixins }
    let out := opImports id (fun f => (lookup table f).getD f) (← fieldStr j "fragmentsModule") g
    pure (Json.arr (out.map encImport).toArray)
  | "forwardRefs" =>
    let types ← fieldStrs j "types"
    let imported ← pairs (·.getStr?) (← j.getObjVal? "imported")
    pure (encRes (fun xs => Json.arr (xs.map encImport).toArray) (forwardRefImports id types imported))
  | "extendImports" =>
    let stmts ← decImports (← j.getObjVal? "stmts")
    let ext ← pairs strs (← j.getObjVal? "ext")
    pure (Json.arr ((extendImports id stmts ext).map encImport).toArray)
  | "isortNames" => pure (encStrs (isortNames (← fieldStrs j "names")))
  | "summary" =>
    let stmts ← decImports (← j.getObjVal? "stmts")
    let drop ← fieldStrsD j "drop"
    pure (Json.mkObj [("summary", encSummary (summary (fun n => !drop.contains n) stmts)),
      ("nameTie", summaryTie stmts), ("moduleTie", moduleTie stmts)])
  | "loadFiles" =>
    let entries ← (← (← j.getObjVal? "entries").getArr?).toList.mapM decEntry
    pure (encRes Json.str (loadGraphqlFiles id entries))
  | "filterEnums" =>
    let used := match j.getObjVal? "used" with
      | .ok .null => none
      | .ok v => (strs v).toOption
      | .error _ => none
    pure (encStrs (filterEnums (← fieldStrs j "schemaEnums") used))
  | "packageFrag" =>
    -- only the guard of `_generate_fragments` is observed here: generators are left empty
    let names ← fieldStrs j "fragments"
    let unpacked ← fieldStrs j "unpacked"
    let op : OpIn := ⟨"", default, unpacked⟩
    let x : PkgIn := ⟨names.map (fun n => (n, default)), [op], id, "fragments", [], true, [], [], []⟩
    pure (encRes (fun (o : Option FragOut) => Json.bool o.isSome) (packageFrag id x))
  | "initAll" =>
    pure (encStrs (initAll (← decImports (← j.getObjVal? "imports"))))
  | "classBases" =>
    -- `fragments` arrives in the order the real set was iterated; `sorted` must erase it
    let table ← pairs (·.getStr?) (← j.getObjVal? "pascal")
    pure (encStrs (classBases id (fun f => (lookup table f).getD f) (← fieldStr j "baseModel")
      (← fieldStrs j "fragments") (← fieldStrsD j "extraBases")))
  | "typenameValues" =>
    let abstract := (j.getObjValAs? String "abstract").toOption
    pure (encPairs (typenameValues (enumFrom (← fieldStrsD j "order")) (← fieldStrs j "typesNames") abstract (← fieldStrsD j "possible")))
  | "typenameLiteral" => pure (encStrs (typenameLiteral (← fieldStrs j "values")))
  | "operationFragments" =>
    let closure ← pairs strs (← j.getObjVal? "closure")
    pure (encRes encStrs (operationFragments id (← fieldStrs j "mixins") (← fieldStrs j "unpacked") (lookup closure)))
  | "collectedTypes" => pure (encStrs (collectedTypes id (← fieldStrs j "collected")))
  | "pluginsTypes" =>
    let table ← pairs decTarget (← j.getObjVal? "resolve")
    let resolve : String → PluginTarget := fun s => (lookup table s).getD (.refused "unresolved in the recorded table")
    pure (match getPluginsTypes id resolve (← fieldStrs j "plugins") with
      | .ok cs => Json.mkObj [("ok", encStrs cs)]
      | .error m => Json.mkObj [("err", "PluginImportError"), ("msg", m)])
  | "runHook" =>
    -- the harness's recording plugins append their own class to the object: explorer + manager composed
    let table ← pairs decTarget (← j.getObjVal? "resolve")
    let resolve : String → PluginTarget := fun s => (lookup table s).getD (.refused "unresolved in the recorded table")
    pure (match runHook id resolve (fun c (x : List String) => x ++ [c]) (← fieldStrs j "plugins") (← fieldStrsD j "start") with
      | .ok cs => Json.mkObj [("ok", encStrs cs)]
      | .error m => Json.mkObj [("err", "PluginImportError"), ("msg", m)])
  | "applyHooks" =>
    -- hooks of the harness's recording plugins: each appends its own tag
    pure (encStrs (applyHooks (fun c (x : List String) => x ++ [c]) (← fieldStrs j "plugins") (← fieldStrsD j "start")))
  | _ => throw s!"unknown op {op}"

def main : IO Unit := Ariadne.Wire.loop handle
