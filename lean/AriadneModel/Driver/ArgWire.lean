/- JSON glue shared by the C03 and C07 drivers (twin of harness/argwire.py): annotations, normalised
   GraphQL input types, the coercion view of a schema, scalar configuration, caller values.
   Driver glue: trusted base, no theorem is stated about it.

   GT      ["named", n, nonNull] | ["list", item, nonNull]
   NAnn    {"k":"leaf","l":Leaf,"opt":b} | {"k":"list","item":NAnn,"opt":b}
   Leaf    {"k":"name","n":s} | {"k":"fwd","cls":s} | {"k":"before","type":s,"parse":s} | {"k":"ser","type":s,"fn":s}
   AV      null | {"k":"unset"} | {"k":"bool","v":b} | {"k":"int","v":n} | {"k":"float","v":x} | {"k":"str","v":s}
           | {"k":"enum","v":member} | {"k":"custom","scalar":s,"j":wireJ} | {"k":"list","xs":[AV]}
           | {"k":"model","cls":s,"fields":[{"key":s,"ann":NAnn,"v":AV}]}
   PV out  null | {"$unset":true} | bool | number | string | [..] | {"$dict":[[k,v]..]} | {"$model":PV} | {"$leaf":wireJ}
           | {"$upload":n} | {"$opaque":true}                                                             -/
import AriadneModel.Driver.Wire
import AriadneModel.Driver.GqlWire
import AriadneModel.Model.ArgSend

namespace Ariadne.ArgWire
open Lean (Json)
open Ariadne Ariadne.Wire Ariadne.Scalars Ariadne.Coerce Ariadne.ArgValues
open Ariadne.BaseClient (PV)

def arrOf (j : Json) (k : String) : Except String (List Json) := do
  match j.getObjVal? k with
  | .ok (.arr xs) => pure xs.toList
  | .ok .null => pure []
  | .ok _ => throw s!"{k}: array expected"
  | .error _ => pure []

def optStr (j : Json) (k : String) : Option String :=
  match j.getObjVal? k with
  | .ok (.str s) => some s
  | _ => none

partial def decGT (j : Json) : Except String GT := do
  match j with
  | .arr #[.str "named", .str n, .bool b] => pure (.named n b)
  | .arr #[.str "list", t, .bool b] => do pure (.list (← decGT t) b)
  | _ => throw "GT"

def decLeaf (j : Json) : Except String Leaf := do
  match ← fieldStr j "k" with
  | "name" => pure (.name (← fieldStr j "n"))
  | "fwd" => pure (.fwd (← fieldStr j "cls"))
  | "before" => pure (.before (← fieldStr j "type") (← fieldStr j "parse"))
  | "ser" => pure (.ser (← fieldStr j "type") (← fieldStr j "fn"))
  | k => throw s!"leaf kind {k}"

partial def decNAnn (j : Json) : Except String NAnn := do
  match ← fieldStr j "k" with
  | "leaf" => pure (.leaf (← decLeaf (← field j "l")) (← fieldBool j "opt"))
  | "list" => pure (.list (← decNAnn (← field j "item")) (← fieldBool j "opt"))
  | k => throw s!"ann kind {k}"

def encLeaf : Leaf → Json
  | .name n => Json.mkObj [("k", "name"), ("n", n)]
  | .fwd c => Json.mkObj [("k", "fwd"), ("cls", c)]
  | .before t p => Json.mkObj [("k", "before"), ("type", t), ("parse", p)]
  | .ser t f => Json.mkObj [("k", "ser"), ("type", t), ("fn", f)]

def encNAnn : NAnn → Json
  | .leaf l o => Json.mkObj [("k", "leaf"), ("l", encLeaf l), ("opt", o)]
  | .list i o => Json.mkObj [("k", "list"), ("item", encNAnn i), ("opt", o)]

def decScalars (j : Json) (k : String) : Except String ScalarCfg := do
  (← arrOf j k).mapM fun s => do
    pure (← fieldStr s "name",
      ({ type_ := ← fieldStr s "type", serialize := optStr s "serialize", parse := optStr s "parse",
         import_ := optStr s "import" } : ScalarData))

def decIField (f : Json) : Except String IField := do
  let dflt ← match f.getObjVal? "default" with
    | .ok d => do pure (some (← dec d))
    | .error _ => pure none
  pure { name := ← fieldStr f "name", type := ← decGT (← field f "type"), default := dflt }

/-- {"types": [{"name", "kind": "scalar"|"enum"|"input"|"output", "values": [...], "fields": [IField]}]} -/
def decISchema (j : Json) : Except String ISchema := do
  let ts ← (← arrOf j "types").mapM fun t => do
    let name ← fieldStr t "name"
    let ty ← match ← fieldStr t "kind" with
      | "scalar" => pure IType.scalar
      | "enum" => do pure (IType.enum (← (← arrOf t "values").mapM fun x => x.getStr?))
      | "input" => do pure (IType.input (← (← arrOf t "fields").mapM decIField))
      | _ => pure IType.output
    pure (name, ty)
  pure ⟨ts⟩

partial def decAV (j : Json) : Except String AV := do
  match j with
  | .null => pure .none
  | _ =>
    match ← fieldStr j "k" with
    | "unset" => pure .unset
    | "bool" => pure (.bool (← fieldBool j "v"))
    | "int" => do pure (.int (← (← field j "v").getInt?))
    | "float" => match ← fieldJ j "v" with
      | .num m e => pure (.float m e)
      | _ => throw "float expected"
    | "str" => pure (.str (← fieldStr j "v"))
    | "enum" => pure (.enum (← fieldStr j "v"))
    | "custom" => pure (.custom (← fieldStr j "scalar") (← fieldJ j "j"))
    | "list" => do pure (.list (← (← arrOf j "xs").mapM decAV))
    | "model" => do
      let fs ← (← arrOf j "fields").mapM fun f => do
        pure (({ key := ← fieldStr f "key", ann := ← decNAnn (← field f "ann") } : FieldKey), ← decAV (← field f "v"))
      pure (.model (← fieldStr j "cls") fs)
    | k => throw s!"AV kind {k}"

partial def encPV : PV → Json
  | .none => .null
  | .unset => Json.mkObj [("$unset", true)]
  | .bool b => .bool b
  | .num m e => .num ⟨m, e⟩
  | .str s => .str s
  | .list xs => .arr (xs.map encPV).toArray
  | .dict kvs => Json.mkObj [("$dict", .arr (kvs.map fun (k, v) => Json.arr #[.str k, encPV v]).toArray)]
  | .model d _ => Json.mkObj [("$model", encPV d)]
  | .upload i => Json.mkObj [("$upload", (i : Nat))]
  | .leaf (some j) => Json.mkObj [("$leaf", enc j)]
  | .leaf none => Json.mkObj [("$opaque", true)]

def encCalls (cs : List Call) : Json :=
  .arr (cs.map fun c => Json.arr #[.str c.fn, encPV c.arg]).toArray

def encKvsJ (kvs : List (String × J)) : Json := enc (.obj kvs)

/-- The instrumented user functions of the harness (harness/argwire.py `SCALARS_SRC`):
      serialize_x(v) = {"$ser": "serialize_x", "v": <json form of v>}        for a scalar value
                     = {"$ser": "serialize_x", "other": <kind of v>}         for anything else -/
def kindStr : PV → String
  | .none => "None"
  | .unset => "UNSET"
  | .bool _ => "bool"
  | .num _ _ => "number"
  | .str _ => "str"
  | .list _ => "list"
  | .dict _ => "dict"
  | .model _ _ => "model"
  | .upload _ => "upload"
  | .leaf _ => "scalar"

def tagFns : UserFns :=
  { ser := fun f j => .obj [("$ser", .str f), ("v", j)],
    other := fun f v => .ok (.leaf (some (.obj [("$ser", .str f), ("other", .str (kindStr v))]))) }

end Ariadne.ArgWire
