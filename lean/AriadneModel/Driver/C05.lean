/- Line-protocol driver for C05: the result-type generation model, pydantic reference semantics, triggers. -/
import AriadneModel.Driver.ResultHandle

def main : IO Unit := Ariadne.Wire.loop Ariadne.ResultDriver.handle
