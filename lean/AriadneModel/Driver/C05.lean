/- Line-protocol driver for C05: the result-type generation model, pydantic reference semantics, triggers (shared handler),
   plus op `laxResp`: the acceptance predicate of the plain-tier strictness theorem (Properties/C05.lean,
   `plain_accepted_imp_conformant`) evaluated on payloads, for operations inside the theorem's region `PlainOK`. -/
import AriadneModel.Driver.ResultHandle
import AriadneModel.Proofs.C05StrictDefs

open Lean (Json)
open Ariadne Ariadne.Gql Ariadne.ResultTypes

namespace Ariadne.C05Driver

def handle (j : Json) : Except String Json := do
  let op ← Wire.fieldStr j "op"
  match op with
  | "laxResp" =>
    -- for operation number `index`: null when it is outside `PlainOK`, else one Bool per payload
    let env ← ResultDriver.decEnv j
    let ops ← ResultDriver.decOps j
    let idx ← Wire.fieldNat j "index"
    let payloads ← (← GqlWire.arr j "payloads").mapM Wire.dec
    match ops[idx]? with
    | some o =>
      match o.name, Validate.rootOf env.schema o with
      | some n, some rt =>
        if C01Plain.PlainOK env (ResultTypes.pascal n) rt o.sid o.sel {} then
          pure (Json.arr (payloads.map fun p => Json.bool (C05Strict.laxResp env (ResultDriver.decLax j) rt o.sel p)).toArray)
        else pure Json.null
      | _, _ => pure Json.null
    | none => throw "index out of range"
  | _ => ResultDriver.handle j

end Ariadne.C05Driver

def main : IO Unit := Ariadne.Wire.loop Ariadne.C05Driver.handle
