/- Line-protocol driver for C17: runs the settings model and the pipeline model on the harness's inputs. -/
import AriadneModel.Driver.Wire
import AriadneModel.Model.Settings
import AriadneModel.Model.Pipeline

open Lean (Json)
open Ariadne Ariadne.Wire Ariadne.Settings Ariadne.Pipeline

namespace C17Driver

def arrOf (j : Json) (k : String) : Except String (List Json) := do
  match j.getObjVal? k with
  | .ok v => pure (← v.getArr?).toList
  | .error _ => pure []

def optStrOf (j : Json) (k : String) : Option String :=
  match j.getObjVal? k with
  | .ok (.str s) => some s
  | _ => none

def boolOf (j : Json) (k : String) (d : Bool) : Bool :=
  match j.getObjVal? k with
  | .ok (.bool b) => b
  | _ => d

def natOf (j : Json) (k : String) (d : Nat) : Nat :=
  match j.getObjVal? k with
  | .ok v => (v.getNat?.toOption).getD d
  | _ => d

structure FsEntry where
  path : String
  e : Bool
  d : Bool
  f : Bool
  text : String

def decFs (j : Json) : Except String FsEntry := do
  let a ← j.getArr?
  if h : a.size = 5 then
    pure { path := ← a[0].getStr?, e := ← a[1].getBool?, d := ← a[2].getBool?, f := ← a[3].getBool?,
           text := (a[4].getStr?.toOption).getD "" }
  else throw "fs entry: 5 items expected"

def decPair (j : Json) : Except String (String × String) := do
  let a ← j.getArr?
  if h : a.size = 2 then pure (← a[0].getStr?, ← a[1].getStr?) else throw "pair expected"

def decEnv (j : Json) : Except String Env := do
  let fs ← (← arrOf j "fs").mapM decFs
  let environ ← (← arrOf j "environ").mapM decPair
  let defaults ← (← arrOf j "defaults").mapM decPair
  let cwd ← fieldStr j "cwd"
  let find (p : String) : Option FsEntry := fs.find? (·.path == p)
  pure {
    pathExists := fun p => ((find p).map (·.e)).getD false
    isDir := fun p => ((find p).map (·.d)).getD false
    isFile := fun p => ((find p).map (·.f)).getD false
    readText := fun p => ((find p).map (·.text)).getD ""
    environ := fun k => (environ.find? (·.1 == k)).map (·.2)
    isIdent := asciiIdent
    cwd := cwd
    defaultPath := fun k => ((defaults.find? (·.1 == k)).map (·.2)).getD "" }

def optS : Option String → Json
  | some s => .str s
  | none => .null

def encErr (e : ConfigError) : Json :=
  Json.mkObj [("cls", e.pyClass), ("msg", e.message), ("typed", e.typed),
    ("missing", match e with | .missingFields ns => Json.arr (ns.map Json.str).toArray | _ => .null)]

def encScalar (s : ScalarData) : Json :=
  Json.mkObj [("graphql_name", s.graphqlName), ("type_", s.type_), ("serialize", optS s.serialize),
    ("parse", optS s.parse), ("import_", optS s.import_)]

def encPairs (kvs : List (String × String)) : Json :=
  Json.arr (kvs.map fun (k, v) => Json.arr #[.str k, .str v]).toArray

def strs (xs : List String) : Json := Json.arr (xs.map Json.str).toArray

def encBase (b : BaseSettings) : List (String × Json) :=
  [("schema_path", b.schemaPath), ("remote_schema_url", b.remoteSchemaUrl),
   ("remote_schema_headers", encPairs b.remoteSchemaHeaders),
   ("remote_schema_verify_ssl", b.remoteSchemaVerifySsl),
   ("enable_custom_operations", b.enableCustomOperations), ("plugins", strs b.plugins)]

def encClient (s : ClientSettings) : Json :=
  Json.mkObj (encBase s.toBaseSettings ++ ([
     ("queries_path", s.queriesPath), ("target_package_name", s.targetPackageName),
     ("target_package_path", s.targetPackagePath), ("client_name", s.clientName),
     ("client_file_name", s.clientFileName), ("base_client_name", s.baseClientName),
     ("base_client_file_path", s.baseClientFilePath), ("enums_module_name", s.enumsModuleName),
     ("input_types_module_name", s.inputTypesModuleName), ("fragments_module_name", s.fragmentsModuleName),
     ("include_comments", s.includeComments), ("convert_to_snake_case", s.convertToSnakeCase),
     ("include_all_inputs", s.includeAllInputs), ("include_all_enums", s.includeAllEnums),
     ("async_client", s.asyncClient), ("opentelemetry_client", s.opentelemetryClient),
     ("files_to_include", strs s.filesToInclude),
     ("scalars", Json.arr (s.scalars.map encScalar).toArray)] : List (String × Json)))

def encSchemaS (s : SchemaSettings) : Json :=
  Json.mkObj (encBase s.toBaseSettings ++ ([
     ("target_file_path", s.targetFilePath), ("schema_variable_name", s.schemaVariableName),
     ("type_map_variable_name", s.typeMapVariableName)] : List (String × Json)))

def encRead {α : Type} (encOk : α → Json) (r : Read α) (cfg : J) : Json :=
  Json.mkObj [
    ("result", match r.result with
      | .ok s => Json.mkObj [("ok", encOk s)]
      | .error e => Json.mkObj [("err", encErr e)]),
    ("deprecatedSection", r.deprecatedSection), ("deprecatedBoolComments", r.deprecatedBoolComments),
    ("pure", r.callerAfter == cfg)]

def decPyErr (j : Json) : Option PyErr :=
  match j with
  | .null => none
  | _ =>
    match optStrOf j "k", optStrOf j "cls" with
    | some "codegen", some c => some (.codegen c ((optStrOf j "msg").getD ""))
    | _, some c => some (.raw c)
    | _, _ => none

def fieldErr (j : Json) (k : String) : Option PyErr :=
  match j.getObjVal? k with
  | .ok v => decPyErr v
  | .error _ => none

def decSource (j : Json) : Except String Source := do
  let fs ← (← arrOf j "files").mapM fun it => do
    let a ← it.getArr?
    if h : a.size = 2 then pure (← a[0].getStr?, ← a[1].getBool?) else throw "file entry"
  pure { files := fs }

def decSchemaOracle (j : Json) : Except String SchemaOracle := do
  let src ← decSource j
  let remote : RemoteOutcome :=
    match j.getObjVal? "remote" with
    | .ok r =>
      match optStrOf r "k" with
      | some "introspectionError" => .introspectionError ((optStrOf r "msg").getD "")
      | some "raw" => .raw ((optStrOf r "cls").getD "")
      | _ => .ok
    | .error _ => .ok
  pure { src := src, remote := remote, buildError := optStrOf j "buildError", trueErrors := natOf j "trueErrors" 0,
         hasQuery := boolOf j "hasQuery" true, hasMutation := boolOf j "hasMutation" false }

def decPlugins (j : Json) : Except String PluginsOracle := do
  let res := (← arrOf j "resolve").map fun | .str s => some s | _ => none
  let replaces : Option SchemaState :=
    match j.getObjVal? "replaces" with
    | .ok (.null) => none
    | .ok r =>
      some { cache := (match r.getObjVal? "cache" with | .ok (.null) => none | .ok v => v.getNat?.toOption | _ => none),
             trueErrors := natOf r "trueErrors" 0, hasQuery := boolOf r "hasQuery" true,
             hasMutation := boolOf r "hasMutation" false }
    | .error _ => none
  pure { resolve := res, replaces := replaces }

def decQueries (j : Json) : Except String QueriesOracle := do
  let src ← decSource j
  let errs ← (← arrOf j "validationErrors").mapM (·.getStr?)
  let ops ← (← arrOf j "ops").mapM fun o => do
    pure ({ name := optStrOf o "name", moduleName := (optStrOf o "module").getD "",
            isSubscription := boolOf o "sub" false, resultTypesError := fieldErr o "err" } : OpInfo)
  let frags ← (← arrOf j "frags").mapM fun f => do
    pure ({ name := (optStrOf f "name").getD "", unpacked := boolOf f "unpacked" false,
            genError := fieldErr f "err" } : FragInfo)
  pure { src := src, validationErrors := errs, ops := ops, frags := frags }

def encPhase : Phase → String
  | .settings => "settings" | .loadSchema => "loadSchema" | .plugins => "plugins"
  | .assertValid => "assertValid" | .loadQueries => "loadQueries" | .addOperation => "addOperation"
  | .generatePre => "generatePre" | .generateWrite => "generateWrite" | .writeSchema => "writeSchema"

def encEffect : Effect → Json
  | .mkdir => "mkdir"
  | .write f => Json.str ("write:" ++ f)

def encOutcome (o : Outcome) : Json :=
  Json.mkObj [
    ("result", match o.result with
      | .ok files => Json.mkObj [("ok", strs files)]
      | .error (ph, e) => Json.mkObj [("phase", encPhase ph), ("cls", e.cls), ("typed", e.typed), ("msg", e.msg)]),
    ("log", Json.arr (o.log.map encEffect).toArray)]

def handle (j : Json) : Except String Json := do
  let op ← fieldStr j "op"
  match op with
  | "ident" =>
    let s ← fieldStr j "s"
    pure (Json.mkObj [("ident", asciiIdent s), ("kw", isKeyword s)])
  | "suffix" =>
    let p ← fieldStr j "p"
    pure (Json.mkObj [("name", String.ofList (pathName p)), ("suffix", String.ofList (pathSuffix p)),
      ("check", match targetFileCheck p with | some e => Json.str e.message | none => .null)])
  | "classIn" =>
    let cls ← fieldStr j "cls"
    let text ← fieldStr j "text"
    pure (Json.mkObj [("found", isInfixOf ("class " ++ cls).toList text.toList),
      ("declared", declaredChars ("class " ++ cls).toList text.toList)])
  | "header" =>
    let env ← decEnv (← field j "env")
    let v ← fieldStr j "v"
    pure (match headerValue env v with
      | .ok s => Json.mkObj [("ok", s)]
      | .error e => Json.mkObj [("err", e.message)])
  | "clientSettings" =>
    let env ← decEnv (← field j "env")
    let cfg ← fieldJ j "cfg"
    pure (encRead encClient (getClientSettings env cfg) cfg)
  | "schemaSettings" =>
    let env ← decEnv (← field j "env")
    let cfg ← fieldJ j "cfg"
    pure (encRead encSchemaS (getSchemaSettings env cfg) cfg)
  | "client" =>
    let env ← decEnv (← field j "env")
    let cfg ← fieldJ j "cfg"
    let schema ← decSchemaOracle (← field j "schema")
    let plugins ← decPlugins (← field j "plugins")
    let queries ← decQueries (← field j "queries")
    let codeErrs ← (← arrOf j "codeError").mapM fun it => do
      let a ← it.getArr?
      if h : a.size = 2 then pure (← a[0].getStr?, ← a[1].getStr?) else throw "codeError entry"
    let run : ClientRun := {
      env := env, cfg := cfg, schema := schema, plugins := plugins, queries := queries,
      pkgDirExists := boolOf j "pkgDirExists" false,
      codeError := fun st => (codeErrs.find? (·.1 == st.label)).map (fun p => PyErr.raw p.2) }
    pure ((encOutcome (client run)).setObjVal! "triggers" (strs (clientTriggers run)))
  | "graphqlSchema" =>
    let env ← decEnv (← field j "env")
    let cfg ← fieldJ j "cfg"
    let schema ← decSchemaOracle (← field j "schema")
    let plugins ← decPlugins (← field j "plugins")
    let run : SchemaRun := { env := env, cfg := cfg, schema := schema, plugins := plugins,
                             writeError := fieldErr j "writeError" }
    pure ((encOutcome (graphqlSchema run)).setObjVal! "triggers" (strs (schemaTriggers run)))
  | _ => throw s!"unknown op {op}"

end C17Driver

def main : IO Unit := Ariadne.Wire.loop C17Driver.handle
