/- Line-protocol driver for C17: runs the settings model and the pipeline model on the harness's inputs. -/
import AriadneModel.Driver.Wire
import AriadneModel.Model.Settings
import AriadneModel.Model.SourceLoad
import AriadneModel.Model.ConfigFile
import AriadneModel.Model.Pipeline

open Lean (Json)
open Ariadne Ariadne.Wire Ariadne.Settings Ariadne.SourceLoad Ariadne.Pipeline

namespace C17Driver

/-- TOML values on the wire (harness/c17.py `tv_enc`): `{"b": true}`, `{"i": 1}`, `{"f": "<repr>"}`,
    `{"s": "text"}`, `{"l": [...]}`, `{"t": [[key, value], ...]}` -/
partial def decTV (j : Json) : Except String TV := do
  match j.getObjVal? "b" with
  | .ok v => return .bool (← v.getBool?)
  | .error _ => pure ()
  match j.getObjVal? "i" with
  | .ok v => return .int (← v.getInt?)
  | .error _ => pure ()
  match j.getObjVal? "f" with
  | .ok v => return .float (← v.getStr?)
  | .error _ => pure ()
  match j.getObjVal? "s" with
  | .ok v => return .str (← v.getStr?)
  | .error _ => pure ()
  match j.getObjVal? "l" with
  | .ok v => return .list (← (← v.getArr?).toList.mapM decTV)
  | .error _ => pure ()
  match j.getObjVal? "t" with
  | .ok v =>
    let kvs ← (← v.getArr?).toList.mapM fun it => do
      let pr ← it.getArr?
      if h : pr.size = 2 then pure (← pr[0].getStr?, ← decTV pr[1]) else throw "tv: pair expected"
    return .table kvs
  | .error _ => throw "tv: unknown value"

partial def encTV : TV → Json
  | .bool b => Json.mkObj [("b", b)]
  | .int i => Json.mkObj [("i", Json.num ⟨i, 0⟩)]
  | .float r => Json.mkObj [("f", r)]
  | .str s => Json.mkObj [("s", s)]
  | .list xs => Json.mkObj [("l", Json.arr (xs.map encTV).toArray)]
  | .table kvs => Json.mkObj [("t", Json.arr (kvs.map fun (k, v) => Json.arr #[.str k, encTV v]).toArray)]

def decCfg (j : Json) (k : String) : Except String Dict := do
  match ← decTV (← j.getObjVal? k) with
  | .table kvs => pure kvs
  | _ => throw "cfg: a table expected"

def arrOf (j : Json) (k : String) : Except String (List Json) := do
  match j.getObjVal? k with
  | .ok v => pure (← v.getArr?).toList
  | .error _ => pure []

def optStrOf (j : Json) (k : String) : Option String :=
  match j.getObjVal? k with
  | .ok (.str s) => some s
  | _ => none

def boolOf (j : Json) (k : String) (d : Bool) : Bool :=
  match j.getObjVal? k with
  | .ok (.bool b) => b
  | _ => d

def natOf (j : Json) (k : String) (d : Nat) : Nat :=
  match j.getObjVal? k with
  | .ok v => (v.getNat?.toOption).getD d
  | _ => d

structure FsEntry where
  path : String
  e : Bool
  d : Bool
  f : Bool
  text : String

def decFs (j : Json) : Except String FsEntry := do
  let a ← j.getArr?
  if h : a.size = 5 then
    pure { path := ← a[0].getStr?, e := ← a[1].getBool?, d := ← a[2].getBool?, f := ← a[3].getBool?,
           text := (a[4].getStr?.toOption).getD "" }
  else throw "fs entry: 5 items expected"

def decPair (j : Json) : Except String (String × String) := do
  let a ← j.getArr?
  if h : a.size = 2 then pure (← a[0].getStr?, ← a[1].getStr?) else throw "pair expected"

def decEnv (j : Json) : Except String Env := do
  let fs ← (← arrOf j "fs").mapM decFs
  let environ ← (← arrOf j "environ").mapM decPair
  let defaults ← (← arrOf j "defaults").mapM decPair
  let cwd ← fieldStr j "cwd"
  let find (p : String) : Option FsEntry := fs.find? (·.path == p)
  pure {
    pathExists := fun p => ((find p).map (·.e)).getD false
    isDir := fun p => ((find p).map (·.d)).getD false
    isFile := fun p => ((find p).map (·.f)).getD false
    readText := fun p => ((find p).map (·.text)).getD ""
    environ := fun k => (environ.find? (·.1 == k)).map (·.2)
    isIdent := asciiIdent
    cwd := cwd
    defaultPath := fun k => ((defaults.find? (·.1 == k)).map (·.2)).getD "" }

def optS : Option String → Json
  | some s => .str s
  | none => .null

def encErr (e : ConfigError) : Json :=
  Json.mkObj [("cls", e.pyClass), ("msg", e.message), ("typed", e.typed),
    ("missing", match e with
      | .missingFields ns => Json.arr (ns.map Json.str).toArray
      | .typeErrorAsMissing ns => Json.arr (ns.map Json.str).toArray
      | _ => .null),
    ("accidental", match e with | .typeErrorAsMissing _ => true | _ => false)]

def optTV : Option TV → Json
  | some v => encTV v
  | none => .null

def encScalar (s : ScalarData) : Json :=
  Json.mkObj [("graphql_name", s.graphqlName), ("type_", encTV s.type_), ("serialize", optTV s.serialize),
    ("parse", optTV s.parse), ("import_", optTV s.import_)]

def encPairs (kvs : List (String × String)) : Json :=
  Json.arr (kvs.map fun (k, v) => Json.arr #[.str k, .str v]).toArray

def strs (xs : List String) : Json := Json.arr (xs.map Json.str).toArray

def encBase (b : BaseSettings) : List (String × Json) :=
  [("schema_path", encTV b.schemaPath), ("remote_schema_url", encTV b.remoteSchemaUrl),
   ("remote_schema_headers", encTV b.remoteSchemaHeaders),
   ("remote_schema_verify_ssl", encTV b.remoteSchemaVerifySsl),
   ("enable_custom_operations", encTV b.enableCustomOperations), ("plugins", encTV b.plugins)]

def encClient (s : ClientSettings) : Json :=
  Json.mkObj (encBase s.toBaseSettings ++ ([
     ("queries_path", encTV s.queriesPath), ("target_package_name", encTV s.targetPackageName),
     ("target_package_path", encTV s.targetPackagePath), ("client_name", encTV s.clientName),
     ("client_file_name", encTV s.clientFileName), ("base_client_name", encTV s.baseClientName),
     ("base_client_file_path", encTV s.baseClientFilePath), ("enums_module_name", encTV s.enumsModuleName),
     ("input_types_module_name", encTV s.inputTypesModuleName), ("fragments_module_name", encTV s.fragmentsModuleName),
     ("include_comments", encTV s.includeComments), ("convert_to_snake_case", encTV s.convertToSnakeCase),
     ("include_all_inputs", encTV s.includeAllInputs), ("include_all_enums", encTV s.includeAllEnums),
     ("async_client", encTV s.asyncClient), ("opentelemetry_client", encTV s.opentelemetryClient),
     ("files_to_include", encTV s.filesToInclude),
     ("scalars", Json.arr (s.scalars.map encScalar).toArray)] : List (String × Json)))

def encSchemaS (s : SchemaSettings) : Json :=
  Json.mkObj (encBase s.toBaseSettings ++ ([
     ("target_file_path", encTV s.targetFilePath), ("schema_variable_name", encTV s.schemaVariableName),
     ("type_map_variable_name", encTV s.typeMapVariableName)] : List (String × Json)))

def encRead {α : Type} (encOk : α → Json) (r : Read α) (cfg : Dict) : Json :=
  Json.mkObj [
    ("result", match r.result with
      | .ok s => Json.mkObj [("ok", encOk s)]
      | .error e => Json.mkObj [("err", encErr e)]),
    ("deprecatedSection", r.deprecatedSection), ("deprecatedBoolComments", r.deprecatedBoolComments),
    ("pure", r.callerAfter == cfg)]

def decPyErr (j : Json) : Option PyErr :=
  match j with
  | .null => none
  | _ =>
    match optStrOf j "k", optStrOf j "cls" with
    | some "codegen", some c => some (.codegen c ((optStrOf j "msg").getD ""))
    | _, some c => some (.raw c)
    | _, _ => none

def fieldErr (j : Json) (k : String) : Option PyErr :=
  match j.getObjVal? k with
  | .ok v => decPyErr v
  | .error _ => none

def decContent (j : Json) : Except String Content := do
  match j.getObjVal? "text" with
  | .ok v => pure (.text (← v.getStr?))
  | .error _ => pure (.unreadable (← fieldStr j "unreadable"))

partial def decNode (j : Json) : Except String FsNode := do
  match j.getObjVal? "f" with
  | .ok v =>
    let a ← v.getArr?
    if h : a.size = 2 then pure (.file (← a[0].getStr?) (← decContent a[1])) else throw "file node"
  | .error _ =>
    let a ← (← j.getObjVal? "d").getArr?
    if h : a.size = 2 then pure (.dir (← a[0].getStr?) (← (← a[1].getArr?).toList.mapM decNode)) else throw "dir node"

def decRoot (j : Json) : Except String Root := do
  match j.getObjVal? "file" with
  | .ok v =>
    let a ← v.getArr?
    if h : a.size = 2 then pure (.file (← a[0].getStr?) (← decContent a[1])) else throw "file root"
  | .error _ =>
    let a ← (← j.getObjVal? "dir").getArr?
    if h : a.size = 2 then pure (.dir (← a[0].getStr?) (← (← a[1].getArr?).toList.mapM decNode)) else throw "dir root"

/-- `{"root": ..., "parses": [[text, verdict], ...]}`: graphql-core's verdicts on the texts of the case.
    A text the model asks about that the table does not list is an error of the harness, never a default. -/
def decSource (j : Json) : Except String Source := do
  let root ← match j.getObjVal? "root" with
    | .ok v => decRoot v
    | .error _ => pure (.dir "" [])
  let table ← (← arrOf j "parses").mapM fun it => do
    let a ← it.getArr?
    if h : a.size = 2 then pure (← a[0].getStr?, ← a[1].getBool?) else throw "parses entry"
  let parses : String → Bool := fun t => ((table.find? (·.1 == t)).map (·.2)).getD false
  let asked : List String :=
    (filesRead root).filterMap (fun pc => match pc.2 with | .text t => some t | .unreadable _ => none)
    ++ (match loadText parses root with | .ok t => [t] | .error _ => [])
  match asked.find? (fun t => !(table.any (·.1 == t))) with
  | some t => throw s!"parse table lacks a verdict for a text of {t.length} characters"
  | none => pure { root := root, parses := parses }

def encLoadErr : LoadErr → Json
  | .invalidSyntax f => Json.mkObj [("cls", "InvalidGraphqlSyntax"), ("msg", "Invalid graphql syntax in file " ++ f)]
  | .raw c => Json.mkObj [("cls", c), ("msg", Json.null)]

def decSchemaOracle (j : Json) : Except String SchemaOracle := do
  let src ← decSource j
  let remote : RemoteOutcome :=
    match j.getObjVal? "remote" with
    | .ok r =>
      match optStrOf r "k" with
      | some "introspectionError" => .introspectionError ((optStrOf r "msg").getD "")
      | some "raw" => .raw ((optStrOf r "cls").getD "")
      | _ => .ok
    | .error _ => .ok
  pure { src := src, remote := remote, buildError := optStrOf j "buildError", trueErrors := natOf j "trueErrors" 0,
         hasQuery := boolOf j "hasQuery" true, hasMutation := boolOf j "hasMutation" false }

def decLookup (kind : String) (cls : String) : PluginLookup :=
  match kind with
  | "module" => .module
  | "classOk" => .classOk
  | "noModule" => .noModule
  | "noAttribute" => .noAttribute
  | "notPlugin" => .notPlugin
  | _ => .raises cls

def decPlugins (j : Json) : Except String PluginsOracle := do
  let table ← (← arrOf j "lookup").mapM fun it => do
    let a ← it.getArr?
    if h : a.size = 3 then pure (← a[0].getStr?, decLookup (← a[1].getStr?) ((a[2].getStr?.toOption).getD ""))
    else throw "lookup entry"
  let replaces : Option SchemaState :=
    match j.getObjVal? "replaces" with
    | .ok (.null) => none
    | .ok r =>
      some { cache := (match r.getObjVal? "cache" with | .ok (.null) => none | .ok v => v.getNat?.toOption | _ => none),
             trueErrors := natOf r "trueErrors" 0, hasQuery := boolOf r "hasQuery" true,
             hasMutation := boolOf r "hasMutation" false }
    | .error _ => none
  pure { lookup := fun s => ((table.find? (·.1 == s)).map (·.2)).getD (.raises "harness: plugin string not in the lookup table"),
         replaces := replaces }

def decQueries (j : Json) : Except String QueriesOracle := do
  let src ← decSource j
  let errs ← (← arrOf j "validationErrors").mapM (·.getStr?)
  let ops ← (← arrOf j "ops").mapM fun o => do
    pure ({ name := optStrOf o "name", moduleName := (optStrOf o "module").getD "",
            isSubscription := boolOf o "sub" false, resultTypesError := fieldErr o "err" } : OpInfo)
  let frags ← (← arrOf j "frags").mapM fun f => do
    pure ({ name := (optStrOf f "name").getD "", unpacked := boolOf f "unpacked" false,
            genError := fieldErr f "err" } : FragInfo)
  pure { src := src, validationErrors := errs, ops := ops, frags := frags }

def encPhase : Phase → String
  | .settings => "settings" | .loadSchema => "loadSchema" | .plugins => "plugins"
  | .assertValid => "assertValid" | .loadQueries => "loadQueries" | .addOperation => "addOperation"
  | .generatePre => "generatePre" | .generateWrite => "generateWrite" | .writeSchema => "writeSchema"

def encEffect : Effect → Json
  | .mkdir => "mkdir"
  | .write f => Json.str ("write:" ++ f)

def encOutcome (o : Outcome) : Json :=
  Json.mkObj [
    ("result", match o.result with
      | .ok files => Json.mkObj [("ok", strs files)]
      | .error (ph, e) => Json.mkObj [("phase", encPhase ph), ("cls", e.cls), ("typed", e.typed), ("msg", e.msg)]),
    ("log", Json.arr (o.log.map encEffect).toArray)]

def handle (j : Json) : Except String Json := do
  let op ← fieldStr j "op"
  match op with
  | "ident" =>
    let s ← fieldStr j "s"
    pure (Json.mkObj [("ident", asciiIdent s), ("kw", isKeyword s)])
  | "suffix" =>
    let p ← fieldStr j "p"
    pure (Json.mkObj [("name", String.ofList (pathName p)), ("suffix", String.ofList (pathSuffix p)),
      ("check", match targetFileCheck p with | some e => Json.str e.message | none => .null)])
  | "classIn" =>
    let cls ← fieldStr j "cls"
    let text ← fieldStr j "text"
    pure (Json.mkObj [("found", isInfixOf ("class " ++ cls).toList text.toList),
      ("declared", declaredChars ("class " ++ cls).toList text.toList)])
  | "header" =>
    let env ← decEnv (← field j "env")
    let v ← fieldStr j "v"
    pure (match headerValue env v with
      | .ok s => Json.mkObj [("ok", s)]
      | .error e => Json.mkObj [("err", e.message)])
  | "clientSettings" =>
    let env ← decEnv (← field j "env")
    let cfg ← decCfg j "cfg"
    pure ((encRead encClient (getClientSettings env cfg) cfg).setObjVal! "triggers"
      (strs (if trigIllTypedInternal env cfg then ["illTypedOptionInternal"] else [])))
  | "schemaSettings" =>
    let env ← decEnv (← field j "env")
    let cfg ← decCfg j "cfg"
    pure ((encRead encSchemaS (getSchemaSettings env cfg) cfg).setObjVal! "triggers"
      (strs (if trigIllTypedInternalS env cfg then ["illTypedOptionInternal"] else [])))
  | "pyval" =>
    let v ← decTV (← field j "v")
    pure (Json.mkObj [("truthy", v.truthy), ("str", v.pyStr), ("repr", v.pyRepr),
      ("boolKey", match v.boolKey with | none => Json.str "TypeError" | some none => Json.str "KeyError" | some (some b) => Json.bool b),
      ("iter", match v.pyIter with | none => Json.null | some xs => Json.arr (xs.map encTV).toArray),
      ("hasCodegen", match v.containsStr "ariadne-codegen" with | none => Json.null | some b => Json.bool b)])
  | "loadSource" =>
    let src ← decSource (← field j "source")
    pure (Json.mkObj [
      ("files", Json.arr ((filesRead src.root).map fun pc => Json.str pc.1).toArray),
      ("result", match loadDocument src.parses src.root with
        | .ok t => Json.mkObj [("ok", t)]
        | .error e => Json.mkObj [("err", encLoadErr e)])])
  | "configFile" =>
    let cwd ← (← arrOf j "cwd").mapM (·.getStr?)
    let file ← fieldStr j "file"
    let existing ← (← arrOf j "existing").mapM (·.getStr?)
    pure (match ConfigFile.getConfigFilePath (fun p => existing.contains p) cwd file with
      | .path p => Json.mkObj [("path", p)]
      | .notFound m => Json.mkObj [("notFound", m)])
  | "plugin" =>
    let s ← fieldStr j "s"
    let look := decLookup (← fieldStr j "kind") ((optStrOf j "cls").getD "")
    pure (match resolvePlugin (fun _ => look) s with
      | .ok () => Json.mkObj [("ok", true)]
      | .error e => Json.mkObj [("cls", e.cls), ("msg", e.msg)])
  | "client" =>
    let env ← decEnv (← field j "env")
    let cfg ← decCfg j "cfg"
    let schema ← decSchemaOracle (← field j "schema")
    let plugins ← decPlugins (← field j "plugins")
    let queries ← decQueries (← field j "queries")
    let codeErrs ← (← arrOf j "codeError").mapM fun it => do
      let a ← it.getArr?
      if h : a.size = 2 then pure (← a[0].getStr?, ← a[1].getStr?) else throw "codeError entry"
    let run : ClientRun := {
      env := env, cfg := cfg, schema := schema, plugins := plugins, queries := queries,
      pkgDirExists := boolOf j "pkgDirExists" false,
      codeError := fun st => (codeErrs.find? (·.1 == st.label)).map (fun p => PyErr.raw p.2) }
    pure ((encOutcome (client run)).setObjVal! "triggers" (strs (clientTriggers run)))
  | "graphqlSchema" =>
    let env ← decEnv (← field j "env")
    let cfg ← decCfg j "cfg"
    let schema ← decSchemaOracle (← field j "schema")
    let plugins ← decPlugins (← field j "plugins")
    let run : SchemaRun := { env := env, cfg := cfg, schema := schema, plugins := plugins,
                             writeError := fieldErr j "writeError" }
    pure ((encOutcome (graphqlSchema run)).setObjVal! "triggers" (strs (schemaTriggers run)))
  | _ => throw s!"unknown op {op}"

end C17Driver

def main : IO Unit := Ariadne.Wire.loop C17Driver.handle
