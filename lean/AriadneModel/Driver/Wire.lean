/-
  Line protocol shared by all drivers.

  Each input line is a JSON object `{"op": <name>, ...}`; each output line is one compact JSON
  value.  Model-level JSON values (`Ariadne.J`) travel in a *wire encoding* that keeps dict
  insertion order (Lean's `Json.obj` is a sorted tree and would lose it):

      null/bool/number/string  ->  themselves
      array                    ->  JSON array of encoded items
      object                   ->  {"o": [[key, encoded value], ...]}

  The Python side is harness/wire.py.  This file is driver glue (trusted base, item 4 of
  DESIGN.md §6); no theorem is stated about it.
-/
import Lean.Data.Json
import AriadneModel.Model.Json

namespace Ariadne.Wire
open Lean (Json JsonNumber)

partial def dec : Json → Except String J
  | .null => pure .null
  | .bool b => pure (.bool b)
  | .num n => pure (.num n.mantissa n.exponent)
  | .str s => pure (.str s)
  | .arr xs => do
      let ys ← xs.toList.mapM dec
      pure (.arr ys)
  | j@(.obj _) => do
      let o ← j.getObjVal? "o"
      let items ← o.getArr?
      let kvs ← items.toList.mapM fun it => do
        let pr ← it.getArr?
        if h : pr.size = 2 then
          let k ← pr[0].getStr?
          let v ← dec pr[1]
          pure (k, v)
        else throw "wire: pair expected"
      pure (.obj kvs)

partial def enc : J → Json
  | .null => .null
  | .bool b => .bool b
  | .num m e => .num ⟨m, e⟩
  | .str s => .str s
  | .arr xs => .arr (xs.map enc).toArray
  | .obj kvs => Json.mkObj [("o", .arr (kvs.map fun (k, v) => Json.arr #[.str k, enc v]).toArray)]

def field (j : Json) (k : String) : Except String Json := j.getObjVal? k
def fieldJ (j : Json) (k : String) : Except String J := do dec (← j.getObjVal? k)
def fieldStr (j : Json) (k : String) : Except String String := do (← j.getObjVal? k).getStr?
def fieldNat (j : Json) (k : String) : Except String Nat := do (← j.getObjVal? k).getNat?
def fieldBool (j : Json) (k : String) : Except String Bool := do (← j.getObjVal? k).getBool?
def fieldOptJ (j : Json) (k : String) : Except String (Option J) :=
  match j.getObjVal? k with
  | .ok .null => pure none   -- only used where "absent" is what null means on the wire
  | .ok v => do pure (some (← dec v))
  | .error _ => pure none

/-- Read stdin line by line, answer each with `handle`; malformed input yields a
    `{"driver_error": ...}` line (the harness treats that as an infrastructure failure). -/
partial def loop (handle : Json → Except String Json) : IO Unit := do
  let stdin ← IO.getStdin
  let stdout ← IO.getStdout
  let rec go : IO Unit := do
    let line ← stdin.getLine
    if line.isEmpty then return ()
    let out :=
      match Json.parse line with
      | .error e => Json.mkObj [("driver_error", .str s!"parse: {e}")]
      | .ok j =>
        match handle j with
        | .ok r => r
        | .error e => Json.mkObj [("driver_error", .str e)]
    stdout.putStrLn out.compress
    go
  go
  stdout.flush

end Ariadne.Wire
