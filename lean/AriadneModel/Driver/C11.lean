/- Line-protocol driver for C11: runs the *model* `execute` (Model/BaseClient.lean) and the decidable
   validity / trigger predicates (Model/BaseClientTree.lean) on the harness's inputs.

   PV wire form:  {"t":"none"} {"t":"unset"} {"t":"bool","v":b} {"t":"num","v":n} {"t":"str","v":s}
                  {"t":"list","v":[pv…]} {"t":"dict","v":[[k,pv]…]} {"t":"upload","id":n}
                  {"t":"model","dump":pv[,"json":wireJ]} {"t":"leaf"[,"json":wireJ]}
   Object wire form (op "sequenceO"):  value = {"ref":address} | pv;  object = {"t":"list","v":[value…]} |
                  {"t":"dict","v":[[k,value]…]};  Upload object = [filename, content_type, stream id]        -/
import AriadneModel.Driver.Wire
import AriadneModel.Model.BaseClientTree
import AriadneModel.Model.BaseClientHeap
import AriadneModel.Model.BaseClientObjects

open Lean (Json)
open Ariadne Ariadne.Wire Ariadne.BaseClient

def optJson (j : Json) (k : String) : Except String (Option J) :=
  match j.getObjVal? k with
  | .ok v => do pure (some (← dec v))
  | .error _ => pure none

partial def decPV (j : Json) : Except String PV := do
  let t ← fieldStr j "t"
  match t with
  | "none" => pure .none
  | "unset" => pure .unset
  | "bool" => pure (.bool (← fieldBool j "v"))
  | "num" => match ← fieldJ j "v" with
    | .num m e => pure (.num m e)
    | _ => throw "pv: number expected"
  | "str" => pure (.str (← fieldStr j "v"))
  | "list" => do
    let xs ← (← field j "v").getArr?
    pure (.list (← xs.toList.mapM decPV))
  | "dict" => do pure (.dict (← decKvs (← field j "v")))
  | "upload" => pure (.upload (← fieldNat j "id"))
  | "model" => do pure (.model (← decPV (← field j "dump")) (← optJson j "json"))
  | "leaf" => do pure (.leaf (← optJson j "json"))
  | _ => throw s!"pv: unknown tag {t}"
where
  decKvs (j : Json) : Except String (List (String × PV)) := do
    let items ← j.getArr?
    items.toList.mapM fun it => do
      let pr ← it.getArr?
      if h : pr.size = 2 then
        pure (← pr[0].getStr?, ← decPV pr[1])
      else throw "pv: pair expected"

def decStrPairs (j : Json) : Except String (List (String × String)) := do
  (← j.getArr?).toList.mapM fun it => do
    let pr ← it.getArr?
    if h : pr.size = 2 then pure (← pr[0].getStr?, ← pr[1].getStr?) else throw "pair expected"

def decJPairs (j : Json) : Except String (List (String × J)) := do
  (← j.getArr?).toList.mapM fun it => do
    let pr ← it.getArr?
    if h : pr.size = 2 then pure (← pr[0].getStr?, ← dec pr[1]) else throw "pair expected"

def encStrPairs (xs : List (String × String)) : Json :=
  .arr (xs.map fun (k, v) => Json.arr #[.str k, .str v]).toArray

def encJPairs (xs : List (String × J)) : Json :=
  .arr (xs.map fun (k, v) => Json.arr #[.str k, enc v]).toArray

def encRequest : Request → Json
  | .json url b hs kw => Json.mkObj [("r", "json"), ("url", url), ("body", enc b), ("headers", encStrPairs hs),
      ("kwargs", encJPairs kw)]
  | .multipart url ops mp files hs kw => Json.mkObj [("r", "multipart"), ("url", url), ("operations", enc ops),
      ("map", enc mp), ("files", .arr (files.map fun (k, i) => Json.arr #[.str k, (i : Nat)]).toArray),
      ("headers", match hs with | some h => encStrPairs h | none => .null), ("kwargs", encJPairs kw)]
  | .serializationError => Json.mkObj [("r", "error")]

partial def encPV : PV → Json
  | .none => Json.mkObj [("t", "none")]
  | .unset => Json.mkObj [("t", "unset")]
  | .bool b => Json.mkObj [("t", "bool"), ("v", b)]
  | .num m e => Json.mkObj [("t", "num"), ("v", enc (.num m e))]
  | .str s => Json.mkObj [("t", "str"), ("v", s)]
  | .list xs => Json.mkObj [("t", "list"), ("v", .arr (xs.map encPV).toArray)]
  | .dict kvs => Json.mkObj [("t", "dict"), ("v", .arr (kvs.map fun (k, v) => Json.arr #[.str k, encPV v]).toArray)]
  | .upload i => Json.mkObj [("t", "upload"), ("id", (i : Nat))]
  | .model d j => Json.mkObj ([("t", Json.str "model"), ("dump", encPV d)] ++ (match j with | some j => [("json", enc j)] | none => []))
  | .leaf j => Json.mkObj ([("t", Json.str "leaf")] ++ (match j with | some j => [("json", enc j)] | none => []))

def encHeap (h : Heap) : Json :=
  Json.mkObj [("hdrs", .arr (h.hdrs.map encStrPairs).toArray),
    ("vars", .arr (h.vars.map fun kvs => Json.arr (kvs.map fun (k, v) => Json.arr #[.str k, encPV v]).toArray).toArray)]


def decVal (j : Json) : Except String Val :=
  match j.getObjVal? "ref" with
  | .ok a => do pure (.ref (← a.getNat?))
  | .error _ => do pure (.imm (← decPV j))

def decObj (j : Json) : Except String Obj := do
  let t ← fieldStr j "t"
  match t with
  | "list" => do pure (.list (← (← (← field j "v").getArr?).toList.mapM decVal))
  | "dict" => do
    let items ← (← field j "v").getArr?
    pure (.dict (← items.toList.mapM fun it => do
      let pr ← it.getArr?
      if h : pr.size = 2 then pure (← pr[0].getStr?, ← decVal pr[1]) else throw "object: pair expected"))
  | _ => throw s!"object: unknown tag {t}"

def decUpload (j : Json) : Except String UploadObj := do
  let a ← j.getArr?
  if h : a.size = 3 then pure { filename := ← a[0].getStr?, contentType := ← a[1].getStr?, stream := ← a[2].getNat? }
  else throw "upload object: [filename, content_type, stream] expected"

def encVal : Val → Json
  | .ref a => Json.mkObj [("ref", (a : Nat))]
  | .imm v => encPV v

def encObj : Obj → Json
  | .list xs => Json.mkObj [("t", "list"), ("v", .arr (xs.map encVal).toArray)]
  | .dict kvs => Json.mkObj [("t", "dict"), ("v", .arr (kvs.map fun (k, v) => Json.arr #[.str k, encVal v]).toArray)]

def encOHeap (h : OHeap) : Json :=
  Json.mkObj [("hdrs", .arr (h.hdrs.map encStrPairs).toArray), ("objs", .arr (h.objs.map encObj).toArray)]

def encFiles (fs : List (String × Option (String × Nat × String))) : Json :=
  .arr (fs.map fun (name, t) => Json.arr #[.str name, match t with
    | some (fn, st, ct) => Json.arr #[.str fn, (st : Nat), .str ct]
    | none => .null]).toArray

def optNat (j : Json) (k : String) : Except String (Option Nat) := do
  match ← field j k with
  | .null => pure none
  | v => pure (some (← v.getNat?))

def decKind : String → Except String Kind
  | "sync" => pure .sync
  | "async" => pure .async
  | "syncOT" => pure .syncOT
  | "asyncOT" => pure .asyncOT
  | k => throw s!"unknown client kind {k}"

def handle (j : Json) : Except String Json := do
  let op ← fieldStr j "op"
  match op with
  | "execute" =>
    let kind ← decKind (← fieldStr j "kind")
    let cl : Client := { kind := kind, url := ← fieldStr j "url", tracer := ← fieldBool j "tracer" }
    let vars ← match ← field j "variables" with
      | .null => pure none
      | v => do pure (some (← decPV.decKvs v))
    let headers ← match ← field j "headers" with
      | .null => pure none
      | v => do pure (some (← decStrPairs v))
    let opName ← match ← field j "opName" with
      | .null => pure none
      | v => do pure (some (← v.getStr?))
    let call : Call := { query := ← fieldStr j "query", opName := opName, variables := vars, headers := headers,
                         kwargs := ← decJPairs (← field j "kwargs") }
    let (cl', r) := execute cl call
    pure (Json.mkObj [("request", encRequest r), ("client_unchanged", decide (cl' = cl)),
      ("valid", validCall call),
      ("trigContentTypeCase", trigContentTypeCase call),
      ("trigUploadInModelBelowDict", trigUploadInModelBelowDict call)])
  | "sequence" =>
    -- calls one after the other, each on its own client, all naming their `variables` / `headers=`
    -- objects by address in ONE heap: per step the request, the heap and the client afterwards
    let hdrs ← (← (← field j "hdrs").getArr?).toList.mapM decStrPairs
    let vars ← (← (← field j "vars").getArr?).toList.mapM decPV.decKvs
    let heap : Heap := { hdrs := hdrs, vars := vars }
    let steps ← (← (← field j "steps").getArr?).toList.mapM fun sj => do
      let kind ← decKind (← fieldStr sj "kind")
      let cl : Client := { kind := kind, url := ← fieldStr sj "url", tracer := ← fieldBool sj "tracer" }
      let opName ← match ← field sj "opName" with
        | .null => pure none
        | v => do pure (some (← v.getStr?))
      let c : HCall := { query := ← fieldStr sj "query", opName := opName, variables := ← optNat sj "variables",
                         headers := ← optNat sj "headers", kwargs := ← decJPairs (← field sj "kwargs") }
      pure (cl, c)
    let mut out : Array Json := #[]
    for k in [0:steps.length] do
      let pre := steps.take k
      let hBefore := (runSeqH heap pre).1
      match steps[k]? with
      | none => pure ()
      | some (cl, c) =>
        let flags := match hBefore.call? c with
          | some call => [("valid", Json.bool (validCall call)),
                          ("trigContentTypeCase", Json.bool (trigContentTypeCase call)),
                          ("trigUploadInModelBelowDict", Json.bool (trigUploadInModelBelowDict call))]
          | none => []
        match executeH cl hBefore c with
        | .ok cl' h' r =>
          out := out.push (Json.mkObj ([("request", encRequest r), ("client_unchanged", Json.bool (decide (cl' = cl))),
            ("heap", encHeap h')] ++ flags))
        | .illFormed => out := out.push (Json.mkObj [("request", .null), ("illFormed", true)])
    -- the same steps through the model's own sequencing function
    let whole := runSeqH heap steps
    pure (Json.mkObj [("steps", .arr out), ("final_heap", encHeap whole.1),
      ("requests", .arr (whole.2.map fun r => match r with | some r => encRequest r | none => .null).toArray)])
  | "sequenceO" =>
    -- the same on OBJECTS: the `variables` arguments are addresses of dict objects in one store of list/dict
    -- objects (nested containers by reference, aliased in any pattern), Uploads are objects with attributes
    let hdrs ← (← (← field j "hdrs").getArr?).toList.mapM decStrPairs
    let objs ← (← (← field j "objs").getArr?).toList.mapM decObj
    let ups ← (← (← field j "ups").getArr?).toList.mapM decUpload
    let fuel ← fieldNat j "fuel"
    let heap : OHeap := { hdrs := hdrs, objs := objs, ups := ups }
    let steps ← (← (← field j "steps").getArr?).toList.mapM fun sj => do
      let kind ← decKind (← fieldStr sj "kind")
      let cl : Client := { kind := kind, url := ← fieldStr sj "url", tracer := ← fieldBool sj "tracer" }
      let opName ← match ← field sj "opName" with
        | .null => pure none
        | v => do pure (some (← v.getStr?))
      let c : HCall := { query := ← fieldStr sj "query", opName := opName, variables := ← optNat sj "variables",
                         headers := ← optNat sj "headers", kwargs := ← decJPairs (← field sj "kwargs") }
      pure (cl, c)
    let mut out : Array Json := #[]
    for k in [0:steps.length] do
      let pre := steps.take k
      let hBefore := (runSeqO fuel heap pre).1
      match steps[k]? with
      | none => pure ()
      | some (cl, c) =>
        let flags := match hBefore.call? fuel c with
          | some call => [("valid", Json.bool (validCall call)),
                          ("trigContentTypeCase", Json.bool (trigContentTypeCase call)),
                          ("trigUploadInModelBelowDict", Json.bool (trigUploadInModelBelowDict call))]
          | none => []
        match executeO fuel cl hBefore c with
        | .ok cl' h' r fs =>
          out := out.push (Json.mkObj ([("request", encRequest r), ("client_unchanged", Json.bool (decide (cl' = cl))),
            ("heap", encOHeap h'), ("files", encFiles fs)] ++ flags))
        | .illFormed => out := out.push (Json.mkObj [("request", .null), ("illFormed", true)])
    let whole := runSeqO fuel heap steps
    pure (Json.mkObj [("steps", .arr out), ("final_heap", encOHeap whole.1),
      ("requests", .arr (whole.2.map fun r => match r with | some r => encRequest r | none => .null).toArray)])
  | "uploadEq" =>
    -- `x is y or x == y` for the Upload objects at addresses a, b (what `obj in files_list` / `.index` use)
    pure (Json.mkObj [("eq", Json.bool (uploadEq (← fieldNat j "a") (← fieldNat j "b")))])
  | _ => throw s!"unknown op {op}"

def main : IO Unit := Ariadne.Wire.loop handle
