/- Line-protocol driver for C18: runs the *model* of the name mapping on the harness's inputs.

   {"op":"name","n":s}            -> everything the model says about one name (tokens, snake, pascal,
                                     process_name under the 8 flag combinations, the five scopes under
                                     both snake settings, single-name triggers)
   {"op":"hook","n":s,"cfg":k,"hook":{"k":"id"|"prefix"|"const"|"strip","s":t}}
                                  -> process_name with a plugin hook
   {"op":"pair","a":s,"b":t}      -> per flag combination: do the outputs coincide, pair triggers
   {"op":"scope","scope":k,"snake":b,"names":[..],"fixed":[..]} -> python names of a scope, refusal
-/
import AriadneModel.Driver.Wire
import AriadneModel.Model.Names

open Lean (Json)
open Ariadne Ariadne.Wire Ariadne.Names

def js (n : Name) : Json := Json.str (String.ofList n)

def cfgOf (k : Nat) : Cfg := ⟨k / 4 % 2 == 1, k / 2 % 2 == 1, k % 2 == 1⟩   -- bits: snake trim reserved

def allCfgs : List Cfg := (List.range 8).map cfgOf

def scopes : List Scope := [.resultField, .inputField, .variable, .operation, .enumValue]

def scopeOf : String → Except String Scope
  | "resultField" => pure .resultField
  | "inputField" => pure .inputField
  | "variable" => pure .variable
  | "operation" => pure .operation
  | "enumValue" => pure .enumValue
  | s => throw s!"unknown scope {s}"

def encEmitted (e : Emitted) : Json :=
  Json.arr #[js e.py, (match e.alias with | some a => js a | none => Json.null), js e.wire]

def hookOf (j : Json) : Except String (Name → Name) := do
  let k ← fieldStr j "k"
  match k with
  | "id" => pure id
  | "prefix" => do let s ← fieldStr j "s"; pure (fun n => s.toList ++ n)
  | "const" => do let s ← fieldStr j "s"; pure (fun _ => s.toList)
  | "strip" => pure (fun n => n.filter (· != '_'))
  | _ => throw s!"unknown hook {k}"

def handle (j : Json) : Except String Json := do
  let op ← fieldStr j "op"
  match op with
  | "name" =>
    let n := (← fieldStr j "n").toList
    pure <| Json.mkObj [
      ("tokens", Json.arr ((tokens n).map js).toArray),
      ("snake", js (snake n)),
      ("pascal", js (pascal n)),
      ("proc", Json.arr (allCfgs.map fun c => js (processName c n)).toArray),
      ("scopes", Json.arr ([false, true].map fun sn =>
          Json.arr (scopes.map fun s => encEmitted (emit sn s n)).toArray).toArray),
      ("gname", decide (GName n)),
      ("word", decide (Word n)),
      ("alnum", js (alnum n)),
      ("ok", Json.arr (allCfgs.map fun c => Json.bool (decide (OutOK c (processName c n)))).toArray),
      ("ptrig", Json.bool (trigPascalBad n)),
      ("strig", Json.arr ([false, true].map fun sn =>
          Json.arr (scopes.map fun s => Json.bool (trigScopeSingle sn s n)).toArray).toArray),
      ("trig", Json.arr (allCfgs.map fun c => Json.arr #[
          Json.bool (trigDigitLead c n), Json.bool (trigTrimToKeyword c n),
          Json.bool (trigFallbackNotFixed c n), Json.bool (fallbackFires c n)]).toArray)]
  | "hook" =>
    let n := (← fieldStr j "n").toList
    let k ← fieldNat j "cfg"
    let h ← hookOf (← field j "hook")
    pure (js (processNameH h (cfgOf k) n))
  | "pair" =>
    let a := (← fieldStr j "a").toList
    let b := (← fieldStr j "b").toList
    pure <| Json.mkObj [
      ("cfgs", Json.arr (allCfgs.map fun c => Json.arr #[
        Json.bool (processName c a == processName c b),
        Json.bool (trigSnakeMerge c a b), Json.bool (trigTrimMerge c a b),
        Json.bool (trigSuffixMerge c a b), Json.bool (trigFallbackMerge c a b)]).toArray),
      ("scopes", Json.arr ([false, true].map fun sn => Json.arr (scopes.map fun s => Json.arr #[
        Json.bool (pyName sn s a == pyName sn s b), Json.bool (trigScopeMerge sn s a b)]).toArray).toArray)]
  | "scope" =>
    let s ← scopeOf (← fieldStr j "scope")
    let sn ← fieldBool j "snake"
    let names ← (← (← field j "names").getArr?).toList.mapM fun x => do pure (← x.getStr?).toList
    let fixed ← (← (← field j "fixed").getArr?).toList.mapM fun x => do pure (← x.getStr?).toList
    pure <| Json.mkObj [
      ("refused", Json.bool (scopeRefused fixed s names)),
      ("names", Json.arr ((scopeNames sn s names).map js).toArray)]
  | _ => throw s!"unknown op {op}"

def main : IO Unit := Ariadne.Wire.loop handle
