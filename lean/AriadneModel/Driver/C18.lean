/- Line-protocol driver for C18: runs the *model* of the name mapping on the harness's inputs.

   {"op":"name","n":s}            -> everything the model says about one name (tokens, snake, pascal,
                                     process_name under the 8 flag combinations, the five scopes under
                                     both snake settings, single-name triggers)
   {"op":"hook","n":s,"cfg":k,"hook":{"k":"id"|"prefix"|"const"|"strip","s":t}}
                                  -> process_name with a plugin hook
   {"op":"pair","a":s,"b":t}      -> per flag combination: do the outputs coincide, pair triggers
   {"op":"scope","scope":k,"snake":b,"names":[..],"fixed":[..]} -> python names of a scope, refusal
   {"op":"calls","calls":[[k, name],..]}  -> one RUN: process_name with flag combination k on each name, in order
   {"op":"method","snake":b,"sub":b,"ret":s,"vars":[[name, has_default(, serialize?)],..]}
                                  -> the method scope: parameters in `def` order, the four helper locals after
                                     `get_variable_names`, does the `def` compile, what a call sends / returns
                                     (or which exception), the four method triggers, `Supported_18m`
   {"op":"class","snake":b,"root":s,"T":s,"addT":b,"env":{"objects":[[n,[iface..]]..],"abstracts":[[n,[sub..]]..],"unions":[..]},
    "sels":[{"f":[alias|null,name]} | {"i":[cond,[..]]} | {"s":[frag,cond,[..]]} ..]}
                                  -> the class scope: rows [py, alias, wire] in order, bases, the keys GraphQL collects
                                     for runtime type T, the keys of class + inherited fragments, noDrop
-/
import AriadneModel.Driver.Wire
import AriadneModel.Model.Names
import AriadneModel.Model.NameScopes

open Lean (Json)
open Ariadne Ariadne.Wire Ariadne.Names Ariadne.NameScopes

def js (n : Name) : Json := Json.str (String.ofList n)

def cfgOf (k : Nat) : Cfg := ⟨k / 4 % 2 == 1, k / 2 % 2 == 1, k % 2 == 1⟩   -- bits: snake trim reserved

def allCfgs : List Cfg := (List.range 8).map cfgOf

def scopes : List Scope := [.resultField, .inputField, .variable, .operation, .enumValue]

def scopeOf : String → Except String Scope
  | "resultField" => pure .resultField
  | "inputField" => pure .inputField
  | "variable" => pure .variable
  | "operation" => pure .operation
  | "enumValue" => pure .enumValue
  | s => throw s!"unknown scope {s}"

def encEmitted (e : Emitted) : Json :=
  Json.arr #[js e.py, (match e.alias with | some a => js a | none => Json.null), js e.wire]

def hookOf (j : Json) : Except String (Name → Name) := do
  let k ← fieldStr j "k"
  match k with
  | "id" => pure id
  | "prefix" => do let s ← fieldStr j "s"; pure (fun n => s.toList ++ n)
  | "const" => do let s ← fieldStr j "s"; pure (fun _ => s.toList)
  | "strip" => pure (fun n => n.filter (· != '_'))
  | _ => throw s!"unknown hook {k}"


partial def encVal : Val → Json
  | .arg i => Json.mkObj [("arg", Json.num i)]
  | .selfV => Json.str "self"
  | .kwargsV => Json.str "kwargs"
  | .text => Json.str "text"
  | .dict ks vs => Json.mkObj [("dict", Json.arr ((ks.zip vs).map fun (k, v) => Json.arr #[js k, encVal v]).toArray)]
  | .resp q v => Json.mkObj [("resp", Json.arr #[encVal q, encVal v])]
  | .data r => Json.mkObj [("data", encVal r)]
  | .parsed d => Json.mkObj [("parsed", encVal d)]
  | .ser v => Json.mkObj [("ser", encVal v)]

def encMethodErr : MethodErr → Json
  | .syntaxError => Json.mkObj [("err", "SyntaxError")]
  | .nameError n => Json.mkObj [("err", "NameError"), ("name", js n)]
  | .notCallable n => Json.mkObj [("err", "TypeError"), ("name", js n)]
  | .noAttribute n => Json.mkObj [("err", "AttributeError"), ("name", js n)]

def names? (j : Json) : Except String (List Name) := do
  (← j.getArr?).toList.mapM fun x => do pure (← x.getStr?).toList

partial def decSel (j : Json) : Except String Sel := do
  match j.getObjVal? "f" with
  | .ok v =>
    let a ← v.getArr?
    let alias := match a[0]! with | Json.str s => some s.toList | _ => none
    pure (.field alias (← a[1]!.getStr?).toList)
  | .error _ =>
    match j.getObjVal? "i" with
    | .ok v =>
      let a ← v.getArr?
      pure (.inline (← a[0]!.getStr?).toList (← (← a[1]!.getArr?).toList.mapM decSel))
    | .error _ =>
      let a ← (← j.getObjVal? "s").getArr?
      pure (.spread (← a[0]!.getStr?).toList (← a[1]!.getStr?).toList (← (← a[2]!.getArr?).toList.mapM decSel))

def decAssoc (j : Json) : Except String (List (Name × List Name)) := do
  (← j.getArr?).toList.mapM fun x => do
    let a ← x.getArr?
    pure ((← a[0]!.getStr?).toList, ← names? a[1]!)

def encKeys : Except ResErr (List Name) → Json
  | .ok ks => Json.arr (ks.map js).toArray
  | .error (.keyError t) => Json.mkObj [("err", "KeyError"), ("name", js t)]

def handle (j : Json) : Except String Json := do
  let op ← fieldStr j "op"
  match op with
  | "name" =>
    let n := (← fieldStr j "n").toList
    pure <| Json.mkObj [
      ("tokens", Json.arr ((tokens n).map js).toArray),
      ("snake", js (snake n)),
      ("pascal", js (pascal n)),
      ("proc", Json.arr (allCfgs.map fun c => js (processName c n)).toArray),
      ("scopes", Json.arr ([false, true].map fun sn =>
          Json.arr (scopes.map fun s => encEmitted (emit sn s n)).toArray).toArray),
      ("gname", decide (GName n)),
      ("word", decide (Word n)),
      ("alnum", js (alnum n)),
      ("ok", Json.arr (allCfgs.map fun c => Json.bool (decide (OutOK c (processName c n)))).toArray),
      ("ptrig", Json.bool (trigPascalBad n)),
      ("strig", Json.arr ([false, true].map fun sn =>
          Json.arr (scopes.map fun s => Json.bool (trigScopeSingle sn s n)).toArray).toArray),
      ("trig", Json.arr (allCfgs.map fun c => Json.arr #[
          Json.bool (trigDigitLead c n), Json.bool (trigTrimToKeyword c n),
          Json.bool (trigFallbackNotFixed c n), Json.bool (fallbackFires c n)]).toArray)]
  | "hook" =>
    let n := (← fieldStr j "n").toList
    let k ← fieldNat j "cfg"
    let h ← hookOf (← field j "hook")
    pure (js (processNameH h (cfgOf k) n))
  | "pair" =>
    let a := (← fieldStr j "a").toList
    let b := (← fieldStr j "b").toList
    pure <| Json.mkObj [
      ("cfgs", Json.arr (allCfgs.map fun c => Json.arr #[
        Json.bool (processName c a == processName c b),
        Json.bool (trigSnakeMerge c a b), Json.bool (trigTrimMerge c a b),
        Json.bool (trigSuffixMerge c a b), Json.bool (trigFallbackMerge c a b)]).toArray),
      ("scopes", Json.arr ([false, true].map fun sn => Json.arr (scopes.map fun s => Json.arr #[
        Json.bool (pyName sn s a == pyName sn s b), Json.bool (trigScopeMerge sn s a b)]).toArray).toArray)]
  | "scope" =>
    let s ← scopeOf (← fieldStr j "scope")
    let sn ← fieldBool j "snake"
    let names ← (← (← field j "names").getArr?).toList.mapM fun x => do pure (← x.getStr?).toList
    let fixed ← (← (← field j "fixed").getArr?).toList.mapM fun x => do pure (← x.getStr?).toList
    pure <| Json.mkObj [
      ("refused", Json.bool (scopeRefused fixed s names)),
      ("names", Json.arr ((scopeNames sn s names).map js).toArray)]
  | "calls" =>
    let calls ← (← (← field j "calls").getArr?).toList.mapM fun x => do
      let a ← x.getArr?
      pure (⟨cfgOf (← a[0]!.getNat?), (← a[1]!.getStr?).toList⟩ : Call)
    pure (Json.arr ((runCalls calls).map js).toArray)
  | "method" =>
    let sn ← fieldBool j "snake"
    let sub ← fieldBool j "sub"
    let ret := (← fieldStr j "ret").toList
    let vars ← (← (← field j "vars").getArr?).toList.mapM fun x => do
      let a ← x.getArr?
      let ser := match a[2]? with | some (Json.bool b) => b | _ => false
      pure (⟨(← a[0]!.getStr?).toList, !(← a[1]!.getBool?), ser⟩ : Var)
    let L := getVariableNames (argNames sn vars)
    let names := vars.map (·.name)
    pure <| Json.mkObj [
      ("params", Json.arr ((argNames sn vars).map js).toArray),
      ("locals", Json.arr #[js L.q, js L.v, js L.r, js L.d]),
      ("compiles", Json.bool (defCompiles sn vars)),
      ("outcome", match runMethod sn sub ret vars with
        | .error e => encMethodErr e
        | .ok s => Json.mkObj [("query", encVal s.query), ("variables", encVal s.variables), ("result", encVal s.result)]),
      ("trig", Json.arr #[Json.bool (trigSelfParam sn vars), Json.bool (trigKwargsParam sn vars),
        Json.bool (trigQueryCapture sn vars), Json.bool (trigGlobalShadow sn ret vars)]),
      ("scope_supported", Json.bool (
        names.all (fun n => !trigScopeSingle sn .variable n) &&
        names.all (fun a => names.all fun b => a == b || !trigScopeMerge sn .variable a b))),
      ("ret_fixed", Json.bool (fixedMethodNames.contains ret))]
  | "class" =>
    let sn ← fieldBool j "snake"
    let root := (← fieldStr j "root").toList
    let T := (← fieldStr j "T").toList
    let addT ← fieldBool j "addT"
    let ej ← field j "env"
    let e : TypeEnv := ⟨← decAssoc (← field ej "objects"), ← decAssoc (← field ej "abstracts"), ← names? (← field ej "unions")⟩
    let sels ← (← (← field j "sels").getArr?).toList.mapM decSel
    pure <| Json.mkObj [
      ("class", match classOf sn e root addT sels with
        | .ok out => Json.mkObj [("rows", Json.arr (out.rows.map encEmitted).toArray), ("bases", Json.arr (out.bases.map js).toArray)]
        | .error (.keyError t) => Json.mkObj [("err", "KeyError"), ("name", js t)]),
      ("effective", encKeys (effectiveSels e root sels)),
      ("collect", Json.arr ((collectSels e T sels).map js).toArray),
      ("noDrop", Json.bool (noDropSels e T root sels))]
  | _ => throw s!"unknown op {op}"

def main : IO Unit := Ariadne.Wire.loop handle
