/- Line-protocol driver for C02: the sent-document model (Model/OpText), the embedding model
   (Model/Embed) and the CPython string reference semantics (Spec/PyStr).
   Texts cross the wire as arrays of code points (no dependence on JSON string escaping). -/
import AriadneModel.Driver.Wire
import AriadneModel.Driver.GqlWire
import AriadneModel.Model.OpText
import AriadneModel.Model.Embed
import AriadneModel.Spec.GqlLex

open Lean (Json)
open Ariadne Ariadne.Gql Ariadne.ResultTypes Ariadne.OpText Ariadne.Embed Ariadne.PyStr Ariadne.GqlLex

namespace C02Driver

def strs (xs : List String) : Json := Json.arr (xs.map Json.str).toArray
def nats (xs : List Nat) : Json := Json.arr (xs.map fun (n : Nat) => (n : Json)).toArray
def optStr : Option String → Json
  | some s => Json.str s
  | none => Json.null

def encText (t : List Char) : Json := nats (t.map Char.toNat)
def decText (j : Json) (k : String) : Except String (List Char) := do
  let xs ← GqlWire.arr j k
  xs.mapM fun x => do pure (Char.ofNat (← x.getNat?))

def encDir (d : Directive) : Json :=
  Json.mkObj [("name", d.name), ("args", Json.arr (d.args.map fun (k, v) => Json.mkObj [("name", k), ("str", optStr v)]).toArray)]

partial def encSel : Selection → Json
  | .field a n d _ sub => Json.mkObj [("k", "field"), ("alias", optStr a), ("name", n), ("dirs", Json.arr (d.map encDir).toArray),
      ("sel", Json.arr (sub.map encSel).toArray)]
  | .spread n d => Json.mkObj [("k", "spread"), ("name", n), ("dirs", Json.arr (d.map encDir).toArray)]
  | .inline on d _ sub => Json.mkObj [("k", "inline"), ("on", optStr on), ("dirs", Json.arr (d.map encDir).toArray),
      ("sel", Json.arr (sub.map encSel).toArray)]

def encOp (o : Operation) : Json :=
  let k := match o.kind with | .query => "query" | .mutation => "mutation" | .subscription => "subscription"
  Json.mkObj [("kind", k), ("name", optStr o.name), ("dirs", Json.arr (o.dirs.map encDir).toArray), ("sel", Json.arr (o.sel.map encSel).toArray)]

def encFrag (f : Fragment) : Json :=
  Json.mkObj [("name", f.name), ("on", f.on), ("dirs", Json.arr (f.dirs.map encDir).toArray), ("sel", Json.arr (f.sel.map encSel).toArray)]

def encErr : GenErr → Json
  | .notSupported m => Json.mkObj [("error", "refusal:NotSupported"), ("msg", m)]
  | .parsing m => Json.mkObj [("error", "refusal:ParsingError"), ("msg", m)]
  | .internal e => Json.mkObj [("error", "internal:" ++ e)]
  | .fuel => Json.mkObj [("error", "fuel")]

def decEnv (j : Json) : Except String Env := do
  let schema ← GqlWire.schema (← j.getObjVal? "schema")
  let frags ← (← GqlWire.arr j "fragments").mapM GqlWire.fragment
  let scalars ← (← GqlWire.arr j "scalars").mapM fun s => do
    pure ({ name := ← GqlWire.str s "name", typeName := ← GqlWire.str s "typeName", parseName := ← GqlWire.optStr s "parseName" } : ScalarCfg)
  pure { schema := schema, frags := frags, scalars := scalars, snake := GqlWire.boolD j "snake" true }

def fuel : Nat := 100000

def sentDocLine (j : Json) : Except String Json := do
  let env ← decEnv j
  let o ← GqlWire.operation (← j.getObjVal? "operation")
  let marksIn ← (← GqlWire.arr j "marksIn").mapM fun x => x.getNat?
  match generate env fuel (.op o) marksIn with
  | .error e => pure (Json.mkObj [("gen", encErr e)])
  | .ok out =>
    let st := out.st
    let genPart : List (String × Json) := [("mixins", strs st.mixins), ("unpacked", strs st.unpacked), ("marks", nats st.marks)]
    match relatedFragments env.frags fuel st.mixins st.unpacked with
    | .error e => pure (Json.mkObj (genPart ++ [("opstr", encErr e)]))
    | .ok related =>
      let reach := match fragNames env.frags fuel o.sel with | .ok r => some r | .error _ => none
      let flags : List (String × Json) := [
        ("related", strs related), ("names", strs (sentNames related)),
        ("dropped", droppedSpread env.frags o st.unpacked related),
        ("mixinOnFrag", mixinOnSentFragment env.frags related),
        ("reach", match reach with | some r => strs r | none => Json.null),
        ("stateSound", match reach with | some r => Json.bool (stateSound r st.mixins st.unpacked) | none => Json.null),
        ("mixinPlaced", mixinPlacedSels o.sel && env.frags.all fun f => mixinPlacedSels f.sel),
        ("operationName", optStr (sentOperationName o))]
      match sentDoc env.frags fuel o st with
      | .error e => pure (Json.mkObj (genPart ++ flags ++ [("opstr", encErr e)]))
      | .ok d => pure (Json.mkObj (genPart ++ flags ++ [("doc", Json.mkObj [("op", encOp d.op), ("frags", Json.arr (d.frags.map encFrag).toArray)])]))

def envOf (j : Json) : Except String (Char → Bool) := do
  let np ← (← GqlWire.arr j "nonprintable").mapM fun x => x.getNat?
  pure fun c => !np.contains c.toNat

def embedLine (j : Json) : Except String Json := do
  let q ← decText j "text"
  let vi ← GqlWire.nat j "vi"
  let off ← GqlWire.nat j "off"
  let env ← envOf j
  match embed env vi off q with
  | .unmodelled t => pure (Json.mkObj [("unmodelled", t.name)])
  | .ok lit =>
    -- `region`: the finding region the text is in although the model answers (escN / lineSep), else null;
    -- `expected`: the property's text (every character kept, re-indented); `described`: the closed form of what is sent
    pure (Json.mkObj [("unparsed", encText (unparseConsts env (constants q))), ("literal", encText lit),
      ("sent", match evalTripleQuoted lit with | some v => encText v | none => Json.null),
      ("region", match trigger q with | some t => Json.str t.name | none => Json.null),
      ("expected", encText (expectedText (vi + off) q)),
      ("described", encText (describedSent (vi + off) q))])

def pystrLine (j : Json) : Except String Json := do
  let fn ← GqlWire.str j "fn"
  let t ← decText j "text"
  match fn with
  | "splitlines" => pure (Json.arr ((splitlines t).map encText).toArray)
  | "repr" => do
    let env ← envOf j
    pure (encText (reprStr env t))
  | "indent" => do
    let k ← GqlWire.nat j "k"
    pure (encText (pyIndent (List.replicate k ' ') t))
  | "eval" => pure (match evalTripleQuoted t with | some v => encText v | none => Json.null)
  | "trigger" => pure (match trigger t with | some tr => Json.str tr.name | none => Json.null)
  | _ => throw s!"unknown pystr fn {fn}"

def encTok : Tok → Json
  | .punct s => Json.arr #["punct", encText s]
  | .name s => Json.arr #["name", encText s]
  | .num s => Json.arr #["num", encText s]
  | .str s => Json.arr #["str", encText s]
  | .err => Json.arr #["err", encText []]

def lexLine' (j : Json) : Except String Json := do
  let q ← decText j "text"
  pure (Json.arr ((lexText q).map encTok).toArray)

def handle (j : Json) : Except String Json := do
  let op ← Wire.fieldStr j "op"
  match op with
  | "sentDoc" => sentDocLine j
  | "embed" => embedLine j
  | "pystr" => pystrLine j
  | "lex" => lexLine' j
  | _ => throw s!"unknown op {op}"

end C02Driver

def main : IO Unit := Ariadne.Wire.loop C02Driver.handle
