/- Line-protocol driver for C08: the package-level fragments model (Model/Fragments.lean) and the
   per-definition result-type generation (Model/ResultTypes.lean). Driver glue, trusted base. -/
import AriadneModel.Driver.Wire
import AriadneModel.Driver.GqlWire
import AriadneModel.Model.Fragments
import AriadneModel.Spec.Py

open Lean (Json)
open Ariadne Ariadne.Gql Ariadne.ResultTypes Ariadne.Fragments

namespace C08Drv

partial def encAnn : Ann → Json
  | .name n => Json.mkObj [("k", "name"), ("n", n)]
  | .cls n => Json.mkObj [("k", "cls"), ("n", n)]
  | .optional a => Json.mkObj [("k", "optional"), ("a", encAnn a)]
  | .list a => Json.mkObj [("k", "list"), ("a", encAnn a)]
  | .union as => Json.mkObj [("k", "union"), ("as", Json.arr (as.map encAnn).toArray)]
  | .disc a => Json.mkObj [("k", "disc"), ("a", encAnn a)]
  | .literal vs => Json.mkObj [("k", "literal"), ("vs", Json.arr (vs.map Json.str).toArray)]
  | .before t p => Json.mkObj [("k", "before"), ("type", t), ("parse", p)]

def encField (f : FieldDecl) : Json :=
  Json.mkObj [("py", f.py), ("ann", encAnn f.ann), ("alias", match f.alias with | some a => Json.str a | none => Json.null),
    ("disc", f.discriminator), ("defaultNone", f.defaultNone)]

def strs (xs : List String) : Json := Json.arr (xs.map Json.str).toArray

def encClass (c : ClassDecl) : Json :=
  Json.mkObj [("name", c.name), ("bases", strs c.bases), ("fields", Json.arr (c.fields.map encField).toArray)]

def encGenErr : GenErr → Json
  | .notSupported m => Json.mkObj [("error", "refusal:NotSupported"), ("msg", m)]
  | .parsing m => Json.mkObj [("error", "refusal:ParsingError"), ("msg", m)]
  | .internal e => Json.mkObj [("error", "internal:" ++ e)]
  | .fuel => Json.mkObj [("error", "fuel")]

def encErr : Err → Json
  | .gen e => encGenErr e
  | .order (.keyError k) => Json.mkObj [("error", "internal:KeyError"), ("key", k)]
  | .order (.valueError k) => Json.mkObj [("error", "internal:ValueError"), ("key", k)]
  | .order (.isADirectory _) => Json.mkObj [("error", "internal:IsADirectoryError")]
  | .order .fuel => Json.mkObj [("error", "fuel")]

def pairs (xs : List (String × String)) : Json := Json.arr (xs.map fun (a, b) => Json.arr #[.str a, .str b]).toArray

def encDef (g : DefGen) : Json :=
  Json.mkObj [("name", g.name), ("classes", Json.arr (g.out.classes.map encClass).toArray),
    ("mixins", strs (Util.sortStr g.out.st.mixins)), ("unpacked", strs (Util.sortStr g.out.st.unpacked)),
    ("mixinImports", pairs g.out.st.mixinImports),
    ("fragmentImports", strs (Util.sortStr (opFragmentImports g)))]

def encFragments : Option FragmentsOut → Json
  | none => Json.null
  | some fo => Json.mkObj [("order", strs fo.order), ("classes", Json.arr (fo.classes.map encClass).toArray),
      ("rebuilds", strs fo.rebuilds),
      ("deps", Json.arr ((fo.deps.map fun (n, ds) => Json.arr #[.str n, strs (Util.sortStr ds)])).toArray),
      ("mixinImports", pairs fo.mixinImports), ("publicNames", strs fo.publicNames)]

def decEnv (j : Json) : Except String Env := do
  let schema ← GqlWire.schema (← j.getObjVal? "schema")
  let frags ← (← GqlWire.arr j "fragments").mapM GqlWire.fragment
  let scalars ← (← GqlWire.arr j "scalars").mapM fun s => do
    pure ({ name := ← GqlWire.str s "name", typeName := ← GqlWire.str s "typeName", parseName := ← GqlWire.optStr s "parseName" } : ScalarCfg)
  pure { schema := schema, frags := frags, scalars := scalars, snake := GqlWire.boolD j "snake" true }

/-- the enumeration oracle of one real run: the recorded listing of the iterated set, for that set;
    anything else (only ever fed to `sorted`) as given -/
def oracleOf (listing : List String) : Order.EnumOracle := fun s =>
  if s.length == listing.length && s.all listing.contains then listing else s

def fuel : Nat := 100000

/-- what the operations before the failing one did (the real run is observed step by step) -/
def partialOps (env : Env) : OpsOut → List Operation → OpsOut
  | acc, [] => acc
  | acc, o :: rest =>
    match addOperation env fuel acc o with
    | .ok a => partialOps env a rest
    | .error _ => acc

def handle (j : Json) : Except String Json := do
  let op ← Wire.fieldStr j "op"
  match op with
  | "package" =>
    let env ← decEnv j
    let ops ← (← GqlWire.arr j "operations").mapM GqlWire.operation
    let listing ← GqlWire.strList j "listing"
    let e := oracleOf listing
    let trig := trigUnpackedAndInherited e env fuel ops
    match fragmentsModule e env fuel ops with
    | .ok out =>
      pure (Json.mkObj [("ops", Json.arr (out.ops.map encDef).toArray), ("excluded", strs (Util.sortStr out.excluded)),
        ("fragments", encFragments out.fragments), ("trigger", trig),
        ("mroConflict", (moduleTables out).any fun t => !Spec.Py.mroOK t),
        ("siblingUnpacks", trigSiblingUnpacks e env fuel ops)])
    | .error err =>
      -- what the operations did is still reported (the real run is observed step by step)
      let a := partialOps env {} ops
      let acc := Json.mkObj [("ops", Json.arr (a.ops.map encDef).toArray), ("excluded", strs (Util.sortStr a.unpacked))]
      pure (Json.mkObj [("failed", encErr err), ("before", acc), ("trigger", trig), ("mroConflict", false), ("siblingUnpacks", false)])
  | "subclass" =>
    -- Spec.Py: is `c` a subclass of `b` given the class table [[name, [bases…]], …]
    let table ← (← GqlWire.arr j "classes").mapM fun x => do
      match x with
      | .arr #[.str n, .arr bs] => do pure (n, ← bs.toList.mapM fun b => b.getStr?)
      | _ => throw "subclass: [name, bases] expected"
    pure (Json.bool (Spec.Py.isSubclassB table (← GqlWire.str j "c") (← GqlWire.str j "b")))
  | "mro" =>
    -- Spec.Py: C3 linearisation of every class of the table, in table order
    let table ← (← GqlWire.arr j "classes").mapM fun x => do
      match x with
      | .arr #[.str n, .arr bs] => do pure (n, ← bs.toList.mapM fun b => b.getStr?)
      | _ => throw "mro: [name, bases] expected"
    pure (Json.arr (table.map fun (c, _) => match Spec.Py.mro table c with
      | some m => strs m
      | none => Json.null).toArray)
  | "decisions" =>
    -- the two decisions behind "the type a selection set is evaluated for", asked directly:
    --   `_get_inline_fragment_root_type(cond, root)` for every listed pair, and
    --   `_unpack_fragment(fragment, root)` for every fragment x listed root
    --   (`null` = called without root type, as `FragmentsGenerator` does)
    let env ← decEnv j
    let prs ← (← GqlWire.arr j "pairs").mapM fun x => do
      match x with
      | .arr #[.str c, .str r] => pure (c, r)
      | _ => throw "decisions: [cond, root] expected"
    let roots ← (← GqlWire.arr j "roots").mapM fun x => do
      match x with
      | .str r => pure (some r)
      | .null => pure none
      | _ => throw "decisions: root name or null expected"
    let inl := prs.map fun (c, r) => match inlineFragmentRootType env c r with
      | some t => Json.str t
      | none => Json.null
    let unp := env.frags.map fun f => Json.arr #[.str f.name, Json.arr (roots.map fun r => Json.bool (unpackFragment env f r)).toArray]
    pure (Json.mkObj [("inlineRoot", Json.arr inl.toArray), ("unpack", Json.arr unp.toArray)])
  | "resultTypes" =>
    let env ← decEnv j
    let d ← match j.getObjVal? "operation" with
      | .ok o => do pure (Definition.op (← GqlWire.operation o))
      | .error _ => do pure (Definition.frag (← GqlWire.fragment (← j.getObjVal? "fragment")))
    let marksIn ← (← GqlWire.arr j "marksIn").mapM fun x => x.getNat?
    match generate env fuel d marksIn with
    | .ok o =>
      pure (Json.mkObj [("classes", Json.arr (o.classes.map encClass).toArray),
        ("mixins", strs (Util.sortStr o.st.mixins)), ("unpacked", strs (Util.sortStr o.st.unpacked)),
        ("mixinImports", pairs o.st.mixinImports), ("publicNames", strs o.st.publicNames),
        ("marks", Json.arr (o.st.marks.map fun (n : Nat) => (n : Json)).toArray)])
    | .error e => pure (encGenErr e)
  | _ => throw s!"unknown op {op}"

end C08Drv

def main : IO Unit := Ariadne.Wire.loop C08Drv.handle
