/- Line-protocol driver for C09: runs the pruning *model* (Model/Prune.lean) on the harness's inputs,
   and the decidable trigger of C09-F1 (same definition the theorems use). -/
import AriadneModel.Driver.Wire
import AriadneModel.Model.Prune
import AriadneModel.Model.PruneDoc

open Lean (Json)
open Ariadne Ariadne.Wire Ariadne.Prune Ariadne.PruneDoc

def strList (j : Json) : Except String (List String) := do
  let arr ← j.getArr?
  arr.toList.mapM fun v => v.getStr?

def fieldStrList (j : Json) (k : String) : Except String (List String) := do
  strList (← j.getObjVal? k)

def fieldOptStrList (j : Json) (k : String) : Except String (Option (List String)) :=
  match j.getObjVal? k with
  | .ok .null => pure none
  | .ok v => do pure (some (← strList v))
  | .error _ => pure none

def decRef (j : Json) : Except String Ref := do
  let pr ← j.getArr?
  if h : pr.size = 2 then
    let k ← pr[0].getStr?
    let n ← pr[1].getStr?
    match k with
    | "i" => pure (.input n)
    | "e" => pure (.enum n)
    | "s" => pure (.scalar n)
    | _ => throw s!"bad ref kind {k}"
  else throw "ref: pair expected"

def decInputDef (j : Json) : Except String InputDef := do
  let name ← fieldStr j "name"
  let fs ← (← j.getObjVal? "fields").getArr?
  let fields ← fs.toList.mapM decRef
  pure { name := name, fields := fields, body := "" }

def decInputs (j : Json) : Except String (List InputDef) := do
  let arr ← (← j.getObjVal? "inputs").getArr?
  arr.toList.mapM decInputDef

def decOp (j : Json) : Except String Op := do
  pure ⟨← fieldStrList j "vi", ← fieldStrList j "ve", ← fieldStrList j "re"⟩

def decStep : String → Except String Step
  | "inputs" => pure .inputs
  | "results" => pure .results
  | "fragments" => pure .fragments
  | "client" => pure .client
  | "enums" => pure .enums
  | s => throw s!"bad step {s}"

def boolD (j : Json) (k : String) (d : Bool) : Bool :=
  match j.getObjVal? k with
  | .ok (.bool b) => b
  | _ => d

def decInput (j : Json) : Except String Input := do
  let inputs ← decInputs j
  let enums ← fieldStrList j "enums"
  let ops ← (← (← j.getObjVal? "ops").getArr?).toList.mapM decOp
  let frag ← fieldOptStrList j "frag"
  let ci ← fieldOptStrList j "customInputs"
  let ce ← fieldOptStrList j "customEnums"
  pure { inputs := inputs, enums := enums.map (fun n => ⟨n, ""⟩), ops := ops, fragEnums := frag,
         allInputs := ← fieldBool j "allInputs", allEnums := ← fieldBool j "allEnums",
         customOps := boolD j "customOps" false, customInputs := ci.getD [], customEnums := ce.getD [] }

def jStrs (l : List String) : Json := Json.arr (l.map Json.str).toArray

def encOutput : Option Output → Json
  | none => Json.mkObj [("error", "out-of-fuel")]
  | some o => Json.mkObj [("inputs", jStrs (o.inputsModule.map (·.name))), ("enums", jStrs (o.enumsModule.map (·.name))),
      ("inputsEnumImport", jStrs o.inputsEnumImport), ("clientInputs", jStrs o.clientInputs),
      ("clientEnums", jStrs o.clientEnums)]

/-! ### the document side (Model/PruneDoc.lean) -/

/-- a variable type: `"T"` named, `["l", t]` list, `["n", t]` non-null -/
partial def decTypeNode (j : Json) : Except String TypeNode := do
  match j with
  | .str n => pure (.named n)
  | _ =>
    let pr ← j.getArr?
    if h : pr.size = 2 then
      let k ← pr[0].getStr?
      let t ← decTypeNode pr[1]
      match k with
      | "l" => pure (.list t)
      | "n" => pure (.nonNull t)
      | _ => throw s!"bad type node kind {k}"
    else throw "type node: pair expected"

def decKind : String → Except String Kind
  | "input" => pure .input
  | "enum" => pure .enum
  | "scalar" => pure .scalar
  | "other" => pure .other
  | s => throw s!"bad kind {s}"

def decKinds (j : Json) : Except String (List (Name × Kind)) := do
  let arr ← (← j.getObjVal? "kinds").getArr?
  arr.toList.mapM fun p => do
    let pr ← p.getArr?
    if h : pr.size = 2 then pure (← pr[0].getStr?, ← decKind (← pr[1].getStr?))
    else throw "kinds: pair expected"

def decDocOp (j : Json) : Except String DocOp := do
  let vars ← (← (← j.getObjVal? "vars").getArr?).toList.mapM decTypeNode
  pure { vars := vars, resultEnums := ← fieldStrList j "re", unpacked := ← fieldStrList j "unpacked" }

def decFragDef (j : Json) : Except String FragDef := do
  pure { name := ← fieldStr j "name", enums := ← fieldStrList j "enums" }

def decDocInput (j : Json) : Except String DocInput := do
  let inputs ← decInputs j
  let enums ← fieldStrList j "enums"
  let ops ← (← (← j.getObjVal? "ops").getArr?).toList.mapM decDocOp
  let frags ← (← (← j.getObjVal? "frags").getArr?).toList.mapM decFragDef
  let ci ← fieldOptStrList j "customInputs"
  let ce ← fieldOptStrList j "customEnums"
  pure { kinds := ← decKinds j, inputs := inputs, enums := enums.map (fun n => ⟨n, ""⟩), ops := ops, frags := frags,
         allInputs := ← fieldBool j "allInputs", allEnums := ← fieldBool j "allEnums",
         customOps := boolD j "customOps" false, customInputs := ci.getD [], customEnums := ce.getD [] }

def encErr : Err → Json
  | .argNotFound n => Json.mkObj [("error", "ParsingError"), ("detail", s!"Argument type {n} not found in schema.")]
  | .argIncorrect n => Json.mkObj [("error", "ParsingError"), ("detail", s!"Incorrect argument type {n}")]
  | .fuel => Json.mkObj [("error", "out-of-fuel")]

def handle (j : Json) : Except String Json := do
  let op ← fieldStr j "op"
  match op with
  | "deps" =>
    let tbl ← decInputs j
    let root ← fieldStr j "root"
    match getDependenciesOfType tbl root with
    | some l => pure (Json.mkObj [("ok", jStrs l)])
    | none => pure (Json.mkObj [("error", "out-of-fuel")])
  | "filter" =>
    let tbl ← decInputs j
    let roots ← fieldOptStrList j "roots"
    match filterInputDefs tbl roots with
    | some cds =>
      let ns := cds.map (·.name)
      pure (Json.mkObj [("classes", jStrs ns), ("usedEnums", jStrs (inputsUsedEnums tbl ns))])
    | none => pure (Json.mkObj [("error", "out-of-fuel")])
  | "enumsFilter" =>
    let enums ← fieldStrList j "enums"
    let incl ← fieldOptStrList j "incl"
    pure (jStrs ((filterEnumDefs (enums.map fun n => ⟨n, ""⟩) incl).map (·.name)))
  | "generate" =>
    let x ← decInput j
    let order ← match j.getObjVal? "order" with
      | .ok v => do (← strList v).mapM decStep
      | .error _ => pure generateOrder
    pure (encOutput (generateWith order x))
  | "trigger" =>
    let x ← decInput j
    pure (Json.bool (trigCustomOpsPruned x))
  | "generateDoc" =>
    let x ← decDocInput j
    match generateDoc x with
    | .ok o =>
      -- the module is written iff `_generate_fragments` does not return early
      let written := match toInput x with
        | .ok i => i.fragEnums.isSome
        | .error _ => false
      pure ((encOutput (some o)).setObjVal! "fragmentsWritten" (Json.bool written))
    | .error e => pure (encErr e)
  | "triggerDoc" =>
    let x ← decDocInput j
    match toInput x with
    | .ok i => pure (Json.bool (trigCustomOpsPruned i))
    | .error e => pure (encErr e)
  | "varsUse" =>
    let kinds ← decKinds j
    let vars ← (← (← j.getObjVal? "vars").getArr?).toList.mapM decTypeNode
    match varsUse (fun n => (kinds.lookup n).getD .missing) vars with
    | .ok a => pure (Json.mkObj [("usedInputs", jStrs a.usedInputs), ("usedEnums", jStrs a.usedEnums)])
    | .error e => pure (encErr e)
  | "fragments" =>
    let frags ← (← (← j.getObjVal? "frags").getArr?).toList.mapM decFragDef
    let unpacked ← fieldStrList j "unpacked"
    match fragmentsEnums frags unpacked with
    | none => pure Json.null
    | some es => pure (jStrs es)
  | _ => throw s!"unknown op {op}"

def main : IO Unit := Ariadne.Wire.loop handle
