/- Line-protocol driver for C12: runs the *model* `getData` on the harness's inputs. -/
import AriadneModel.Driver.Wire
import AriadneModel.Model.GetData

open Lean (Json)
open Ariadne Ariadne.Wire Ariadne.GetData

def encErr (g : GqlErr) : Json :=
  Json.mkObj [("message", enc g.message), ("locations", enc g.locations), ("path", enc g.path),
    ("extensions", enc g.extensions), ("original", enc g.original)]

def encOutcome : Outcome → Json
  | .http s => Json.mkObj [("o", "http"), ("status", s)]
  | .invalid => Json.mkObj [("o", "invalid")]
  | .multi gs d => Json.mkObj [("o", "multi"), ("errors", Json.arr (gs.map encErr).toArray), ("data", enc d)]
  | .data d => Json.mkObj [("o", "data"), ("data", enc d)]
  | .internal x => Json.mkObj [("o", "internal"), ("exc", x)]

def handle (j : Json) : Except String Json := do
  let op ← fieldStr j "op"
  match op with
  | "getData" =>
    let status ← fieldNat j "status"
    let body ← match j.getObjVal? "body" with
      | .ok b => do pure (some (← dec b))
      | .error _ => pure none           -- no "body" member = response.json() raised ValueError
    pure (encOutcome (getData ⟨status, body⟩))
  | _ => throw s!"unknown op {op}"

def main : IO Unit := Ariadne.Wire.loop handle
