/- Line-protocol driver for C12: runs the *models* (`getData`, the JSON decoding reference, the
   exception objects, the generated method's tail) on the harness's inputs.  Driver glue only. -/
import AriadneModel.Driver.Wire
import AriadneModel.Model.GetData
import AriadneModel.Model.RawResponse
import AriadneModel.Model.MethodTail
import AriadneModel.Spec.Pyd

open Lean (Json)
open Ariadne Ariadne.Wire Ariadne.GetData Ariadne.RawResponse Ariadne.MethodTail

def encErr (g : GqlErr) : Json :=
  Json.mkObj [("message", enc g.message), ("locations", enc g.locations), ("path", enc g.path),
    ("extensions", enc g.extensions), ("original", enc g.original)]

def encStr : Except String String → Json
  | .ok s => Json.mkObj [("ok", s)]
  | .error x => Json.mkObj [("raises", x)]

def encOutcome : Outcome → Json
  | .http s => Json.mkObj [("o", "http"), ("status", s)]
  | .invalid => Json.mkObj [("o", "invalid")]
  | .multi gs d => Json.mkObj [("o", "multi"), ("errors", Json.arr (gs.map encErr).toArray), ("data", enc d)]
  | .data d => Json.mkObj [("o", "data"), ("data", enc d)]
  | .internal x => Json.mkObj [("o", "internal"), ("exc", x)]

/-- outcome + what the exception object says about itself (`str()`, per-error `str()`) -/
def encOutcomeFull (o : Outcome) : Json :=
  let base := encOutcome o
  match excOf () o with
  | none => base
  | some e =>
    let extra : List (String × Json) :=
      match e with
      | .multi gs _ => [("str", encStr e.str), ("strs", Json.arr (gs.map fun g => encStr g.str).toArray)]
      | _ => [("str", encStr e.str)]
    base.mergeObj (Json.mkObj extra)

def hexDigit (c : Char) : Except String Nat :=
  if '0' ≤ c ∧ c ≤ '9' then pure (c.toNat - 48)
  else if 'a' ≤ c ∧ c ≤ 'f' then pure (c.toNat - 87)
  else throw "hex digit expected"

def hexBytes (acc : List Nat) : List Char → Except String (List Nat)
  | [] => pure acc.reverse
  | [_] => throw "odd hex length"
  | a :: b :: rest => do
    let x ← hexDigit a
    let y ← hexDigit b
    hexBytes ((x * 16 + y) :: acc) rest

/-- body bytes: a hex string, or `[[hex, n], …]` = concatenation of `n` repetitions of each unit -/
def bodyBytes (j : Json) : Except String (List Nat) :=
  match j with
  | .str s => hexBytes [] s.toList
  | .arr parts => do
    let mut out : List Nat := []
    for p in parts.toList.reverse do
      let pr ← p.getArr?
      if h : pr.size = 2 then
        let unit ← hexBytes [] (← pr[0].getStr?).toList
        let n ← pr[1].getNat?
        out := (List.replicate n unit).flatten ++ out
      else throw "body part: pair expected"
    pure out
  | _ => throw "body: hex string or parts expected"

def cfgOf (j : Json) : Except String PyJson.Cfg := do
  pure { depthLimit := (← fieldNat j "depthLimit"), intMaxDigits := (← fieldNat j "intMaxDigits") }

/-- the small real result class the harness generates (`title: str`, `item: Optional["RItem"]`,
    `RItem.name: str`, `RItem.tags: Optional[List[str]]`); validated by Spec/Pyd.lean -/
def demoEnv : Pyd.Env :=
  { classes := [
      ⟨"R", [], [⟨"title", .name "str", none, false, false⟩, ⟨"item", .optional (.cls "RItem"), none, false, false⟩]⟩,
      ⟨"S", [], [⟨"item", .optional (.cls "RItem"), none, false, false⟩]⟩,      -- the subscription's result class (one root field)
      ⟨"RItem", [], [⟨"name", .name "str", none, false, false⟩, ⟨"tags", .optional (.list (.name "str")), none, false, false⟩]⟩],
    enums := [] }

def demoValidate (cls : String) (j : J) : Option Pyd.PV :=
  match Pyd.validate demoEnv 8 (.cls cls) j with
  | .ok v => some v
  | .error _ => none

def encMOut : MOut Pyd.PV → Json
  | .raised o => Json.mkObj [("m", "raised"), ("outcome", encOutcomeFull o)]
  | .validationError => Json.mkObj [("m", "validationError")]
  | .returned v => Json.mkObj [("m", "returned"), ("dump", enc (Pyd.dump v))]
  | .nameError => Json.mkObj [("m", "nameError")]
  | .misapplied w => Json.mkObj [("m", "misapplied"), ("what", w)]

def encSubEnd : SubEnd → Json
  | .completed => Json.mkObj [("e", "completed")]
  | .raised o => Json.mkObj [("e", "raised"), ("outcome", encOutcomeFull o)]
  | .validationError => Json.mkObj [("e", "validationError")]
  | .nameError => Json.mkObj [("e", "nameError")]
  | .misapplied w => Json.mkObj [("e", "misapplied"), ("what", w)]

def strList (j : Json) (k : String) : Except String (List String) := do
  let a ← (← j.getObjVal? k).getArr?
  a.toList.mapM (·.getStr?)

def handle (j : Json) : Except String Json := do
  let op ← fieldStr j "op"
  match op with
  | "getData" =>
    let status ← fieldNat j "status"
    let body ← match j.getObjVal? "body" with
      | .ok b => do pure (some (← dec b))
      | .error _ => pure none           -- no "body" member = response.json() raised ValueError
    pure (encOutcomeFull (getData ⟨status, body⟩))
  | "loads" =>
    let cfg ← cfgOf j
    let bytes ← bodyBytes (← j.getObjVal? "bytes")
    let brief := (j.getObjVal? "brief").isOk        -- class only (values nested too deeply to be read back)
    match PyJson.loads cfg bytes with
    | .value v => pure (if brief then Json.mkObj [("r", "value")] else Json.mkObj [("r", "value"), ("value", enc v)])
    | .valueError => pure (Json.mkObj [("r", "valueError")])
    | .raises x => pure (Json.mkObj [("r", "raises"), ("exc", x)])
  | "detect" =>
    let bytes ← bodyBytes (← j.getObjVal? "bytes")
    pure (Json.str (reprStr (PyJson.detectEncoding bytes)))
  | "getDataRaw" =>
    let cfg ← cfgOf j
    let status ← fieldNat j "status"
    let bytes ← bodyBytes (← j.getObjVal? "bytes")
    pure (encOutcomeFull (getDataRaw cfg ⟨status, bytes⟩))
  | "emit" =>
    let params ← strList j "params"
    let b := emit params
    pure (Json.mkObj [("queryTarget", b.queryTarget), ("varsTarget", b.varsTarget), ("respTarget", b.respTarget),
      ("getDataArg", b.getDataArg), ("dataTarget", b.dataTarget), ("validateArg", b.validateArg)])
  | "emitSub" =>
    let params ← strList j "params"
    let b := emitSub params
    pure (Json.mkObj [("queryTarget", b.queryTarget), ("varsTarget", b.varsTarget), ("loopTarget", b.loopTarget),
      ("yieldArg", b.yieldArg)])
  | "method" =>
    let cfg ← cfgOf j
    let params ← strList j "params"
    let status ← fieldNat j "status"
    let bytes ← bodyBytes (← j.getObjVal? "bytes")
    pure (encMOut (run (emit params) (getDataRaw cfg) (demoValidate "R") (initEnv params) ⟨status, bytes⟩))
  | "sub" =>
    let params ← strList j "params"
    let items ← (← (← j.getObjVal? "items").getArr?).toList.mapM dec
    let fin : StreamEnd ← match j.getObjVal? "fin" with
      | .ok (.str "exhausted") => pure .exhausted
      | .ok f => do
        -- the stream dies with the multi-error of these error dicts (C13's `error` frame)
        let errs ← dec f
        pure (.raised (fromErrorsDicts errs .null))
      | .error _ => pure .exhausted
    let (vs, e) := runSub (R := Unit) (emitSub params) (demoValidate "S") (initEnv params) items fin
    pure (Json.mkObj [("yields", Json.arr (vs.map fun v => enc (Pyd.dump v)).toArray), ("end", encSubEnd e)])
  | _ => throw s!"unknown op {op}"

def main : IO Unit := Ariadne.Wire.loop handle
