/- Line-protocol driver for C15: runs the plugin-pipeline MODEL on recorded hook events.

   {"op": "pipeline", "plugins": [{"kind": "shorter"|"extract"|"fwd"|"noReimports"|"identity", ...}],
    "events": [{"hook", "op", "kind", "snake", "payload"}]}
     -> {"trace": [{"hook", "in", "out"}], "error": null|str, "ops": null|{"module","all","assigns"},
         "views": [...], "checks": {...}}

   {"op": "pipeline", "config": <wire-encoded config_dict>, "kinds": ["shorter", ...], "events": [...]}
     the same, with the plugin objects constructed by the MODEL of `PluginManager.__init__` / of the plugins'
     own configuration lookups (Model/PluginManager.lean) from the raw configuration dictionary
   {"op": "manager", "wrapper": <method of PluginManager>, "plugins": [{"tag": t}|{"none": true}|{"raise": e}|{"base": true}], "obj": str}
     -> {"result": str, "error": null|str}        the manager loop on synthetic plugins, through the wrapper table
   {"op": "config", "config": <wire-encoded config_dict>} -> the four configuration lookups

   JSON glue only (trusted base item 4); no theorem is stated about this file. -/
import AriadneModel.Driver.Wire
import AriadneModel.Model.PluginPipeline
import AriadneModel.Model.ClientSem
import AriadneModel.Model.PluginFindings
import AriadneModel.Model.PluginManager
import AriadneModel.Model.PluginWhole
import AriadneModel.Model.PluginWholeE
import AriadneModel.Model.PluginWholeSE
import AriadneModel.Model.PluginWholeF

open Lean (Json)
open Ariadne Ariadne.Py Ariadne.Plugins

namespace C15Driver

def optStr (j : Json) (k : String) : Option String :=
  match j.getObjVal? k with
  | .ok (.str s) => some s
  | _ => none

def arrOf (j : Json) : Except String (List Json) := do pure (← j.getArr?).toList

partial def decEx (j : Json) : Except String Ex := do
  if let .ok v := j.getObjVal? "n" then return .name (← v.getStr?)
  if let .ok v := j.getObjVal? "c" then return .const (← v.getStr?)
  if let .ok v := j.getObjVal? "s" then
    match ← arrOf v with
    | [a, b] => return .sub (← decEx a) (← decEx b)
    | _ => throw "ex: s"
  if let .ok v := j.getObjVal? "t" then return .tuple (← (← arrOf v).mapM decEx)
  if let .ok v := j.getObjVal? "a" then
    match ← arrOf v with
    | [a, b] => return .attr (← decEx a) (← b.getStr?)
    | _ => throw "ex: a"
  if let .ok v := j.getObjVal? "call" then
    match ← arrOf v with
    | [f, args, kws] =>
      let kwl ← arrOf kws
      let names ← kwl.mapM (fun kw => do
        match ← arrOf kw with
        | [k, _] => pure (match k with | .str s => some s | _ => none)
        | _ => throw "ex: kw")
      let vals ← kwl.mapM (fun kw => do
        match ← arrOf kw with
        | [_, x] => decEx x
        | _ => throw "ex: kw")
      return .call (← decEx f) (← (← arrOf args).mapM decEx) names vals
    | _ => throw "ex: call"
  if let .ok v := j.getObjVal? "aw" then return .await (← decEx v)
  if let .ok v := j.getObjVal? "y" then
    match v with
    | .null => return .yieldNone
    | _ => return .yield (← decEx v)
  if let .ok v := j.getObjVal? "strs" then return .strs (← (← arrOf v).mapM (·.getStr?))
  if let .ok v := j.getObjVal? "o" then
    let l ← match j.getObjVal? "l" with
      | .ok lv => (← arrOf lv).mapM (·.getStr?)
      | .error _ => pure []
    return .other (← v.getStr?) l
  throw s!"ex: unknown shape {j.compress}"

def decOptEx (j : Json) (k : String) : Except String (Option Ex) :=
  match j.getObjVal? k with
  | .ok .null => pure none
  | .ok v => do pure (some (← decEx v))
  | .error _ => pure none

def decImp (j : Json) : Except String ImportFrom := do
  let names ← (← arrOf (← j.getObjVal? "names")).mapM (fun n => do
    match ← arrOf n with
    | [a, b] => pure ((← a.getStr?), (match b with | .str s => some s | _ => none))
    | _ => throw "imp: name")
  pure { module := optStr j "module", names := names, level := ← (← j.getObjVal? "level").getNat? }

def strList (j : Json) (k : String) : Except String (List String) := do
  match j.getObjVal? k with
  | .ok v => (← arrOf v).mapM (·.getStr?)
  | .error _ => pure []

def decSimple (j : Json) : Except String Simple := do
  let k ← (← j.getObjVal? "k").getStr?
  match k with
  | "importFrom" => pure (.importFrom (← decImp (← j.getObjVal? "imp")))
  | "import" => pure (.import_ (← (← j.getObjVal? "dump").getStr?))
  | "assign" => pure (.assign (← (← j.getObjVal? "target").getStr?) (← decEx (← j.getObjVal? "value")))
  | "assignList" => pure (.assignList (← (← j.getObjVal? "target").getStr?) (← strList j "elts"))
  | "annAssign" => pure (.annAssign (← decEx (← j.getObjVal? "target")) (← decEx (← j.getObjVal? "ann")) (← decOptEx j "value"))
  | "ret" => pure (.ret (← decOptEx j "value"))
  | "expr" => pure (.expr (← decEx (← j.getObjVal? "value")))
  | "other" => pure (.other (← (← j.getObjVal? "dump").getStr?) (← strList j "l"))
  | _ => throw s!"simple statement expected, got {k}"

def decStmt (j : Json) : Except String Stmt := do
  let k ← (← j.getObjVal? "k").getStr?
  if k == "asyncFor" then
    let body ← (← arrOf (← j.getObjVal? "body")).mapM decSimple
    let isList := match j.getObjVal? "bodyList" with | .ok (.bool b) => b | _ => true
    pure (.asyncFor (← decEx (← j.getObjVal? "target")) (← decEx (← j.getObjVal? "iter")) body isList
      (← (← j.getObjVal? "orelse").getNat?))
  else pure (.simple (← decSimple j))

def decMethod (j : Json) : Except String Method := do
  let args ← (← arrOf (← j.getObjVal? "args")).mapM (fun a => do
    match ← arrOf a with
    | [n, ann] => do
      let ann' ← match ann with
        | .null => pure none
        | v => do pure (some (← decEx v))
      pure ((← n.getStr?), ann')
    | _ => throw "method: arg")
  pure { isAsync := ← (← j.getObjVal? "async").getBool?, name := ← (← j.getObjVal? "name").getStr?, args := args,
         rest := ← decEx (← j.getObjVal? "rest"), decorators := ← (← j.getObjVal? "decorators").getNat?,
         returns := ← decOptEx j "returns", body := ← (← arrOf (← j.getObjVal? "body")).mapM decStmt }

def decClassItem (j : Json) : Except String ClassItem := do
  let k ← (← j.getObjVal? "k").getStr?
  if k == "def" then pure (.method (← decMethod (← j.getObjVal? "m")))
  else pure (.stmt (← decSimple j))

def decClass (j : Json) : Except String ClassDef := do
  pure { name := ← (← j.getObjVal? "name").getStr?, bases := ← (← arrOf (← j.getObjVal? "bases")).mapM decEx,
         keywords := ← (← j.getObjVal? "keywords").getNat?, body := ← (← arrOf (← j.getObjVal? "body")).mapM decClassItem }

def decTop (j : Json) : Except String Top := do
  let k ← (← j.getObjVal? "k").getStr?
  match k with
  | "class" => pure (.classDef (← decClass (← j.getObjVal? "c")))
  | "def" => pure (.funcDef (← decMethod (← j.getObjVal? "m")))
  | "if" => pure (.ifStmt (← decEx (← j.getObjVal? "test")) (← (← arrOf (← j.getObjVal? "body")).mapM decSimple)
      (← (← j.getObjVal? "orelse").getNat?))
  | _ => pure (.simple (← decSimple j))

def decModule (j : Json) : Except String Module := do
  pure { body := ← (← arrOf (← j.getObjVal? "body")).mapM decTop }

def payloadKind (hook : String) : String :=
  if hook.endsWith "_module" then "module"
  else if hook.endsWith "_import" then "imp"
  else if hook == "generate_client_method" || hook == "generate_gql_function" then "method"
  else if hook == "generate_client_class" || hook == "generate_result_class" then "klass"
  else if hook == "generate_operation_str" then "str"
  else "opaque"

def decPayload (hook : String) (j : Json) : Except String Payload := do
  match payloadKind hook with
  | "module" => pure (.module (← decModule j))
  | "imp" => pure (.imp (← decImp j))
  | "method" => pure (.method (← decMethod j))
  | "klass" => pure (.klass (← decClass j))
  | "str" => pure (.str (← j.getStr?))
  | _ => pure (.opaque j.compress)

/-! encoders (same shapes) -/

def jopt (o : Option String) : Json := match o with | some s => .str s | none => .null

partial def encEx : Ex → Json
  | .name id => Json.mkObj [("n", id)]
  | .const v => Json.mkObj [("c", v)]
  | .sub v s => Json.mkObj [("s", Json.arr #[encEx v, encEx s])]
  | .tuple es => Json.mkObj [("t", Json.arr (es.map encEx).toArray)]
  | .attr v a => Json.mkObj [("a", Json.arr #[encEx v, .str a])]
  | .call f args ns vs =>
    Json.mkObj [("call", Json.arr #[encEx f, Json.arr (args.map encEx).toArray,
      Json.arr ((ns.zip vs).map (fun (n, v) => Json.arr #[jopt n, encEx v])).toArray])]
  | .await e => Json.mkObj [("aw", encEx e)]
  | .yield e => Json.mkObj [("y", encEx e)]
  | .yieldNone => Json.mkObj [("y", .null)]
  | .strs ls => Json.mkObj [("strs", Json.arr (ls.map Json.str).toArray)]
  | .other d l => Json.mkObj [("o", d), ("l", Json.arr (l.map Json.str).toArray)]

def encOptEx : Option Ex → Json
  | some e => encEx e
  | none => .null

def encImp (i : ImportFrom) : Json :=
  Json.mkObj [("module", jopt i.module), ("names", Json.arr (i.names.map (fun (n, a) => Json.arr #[.str n, jopt a])).toArray),
    ("level", i.level)]

def encSimple : Simple → Json
  | .importFrom i => Json.mkObj [("k", "importFrom"), ("imp", encImp i)]
  | .import_ d => Json.mkObj [("k", "import"), ("dump", d)]
  | .assign t v => Json.mkObj [("k", "assign"), ("target", t), ("value", encEx v)]
  | .assignList t es => Json.mkObj [("k", "assignList"), ("target", t), ("elts", Json.arr (es.map Json.str).toArray)]
  | .annAssign t a v => Json.mkObj [("k", "annAssign"), ("target", encEx t), ("ann", encEx a), ("value", encOptEx v)]
  | .ret v => Json.mkObj [("k", "ret"), ("value", encOptEx v)]
  | .expr v => Json.mkObj [("k", "expr"), ("value", encEx v)]
  | .other d l => Json.mkObj [("k", "other"), ("dump", d), ("l", Json.arr (l.map Json.str).toArray)]

def encStmt : Stmt → Json
  | .simple s => encSimple s
  | .asyncFor t i b l o => Json.mkObj [("k", "asyncFor"), ("target", encEx t), ("iter", encEx i),
      ("body", Json.arr (b.map encSimple).toArray), ("bodyList", l), ("orelse", o)]

def encMethod (m : Method) : Json :=
  Json.mkObj [("async", m.isAsync), ("name", m.name),
    ("args", Json.arr (m.args.map (fun (n, a) => Json.arr #[.str n, encOptEx a])).toArray),
    ("rest", encEx m.rest), ("decorators", m.decorators), ("returns", encOptEx m.returns),
    ("body", Json.arr (m.body.map encStmt).toArray)]

def encClassItem : ClassItem → Json
  | .method m => Json.mkObj [("k", "def"), ("m", encMethod m)]
  | .stmt s => encSimple s

def encClass (c : ClassDef) : Json :=
  Json.mkObj [("name", c.name), ("bases", Json.arr (c.bases.map encEx).toArray), ("keywords", c.keywords),
    ("body", Json.arr (c.body.map encClassItem).toArray)]

def encTop : Top → Json
  | .simple s => encSimple s
  | .classDef c => Json.mkObj [("k", "class"), ("c", encClass c)]
  | .funcDef m => Json.mkObj [("k", "def"), ("m", encMethod m)]
  | .ifStmt t b o => Json.mkObj [("k", "if"), ("test", encEx t), ("body", Json.arr (b.map encSimple).toArray), ("orelse", o)]

def encModule (m : Module) : Json := Json.mkObj [("body", Json.arr (m.body.map encTop).toArray)]

def encPayload : Payload → Json
  | .module m => encModule m
  | .imp i => encImp i
  | .method m => encMethod m
  | .klass c => encClass c
  | .str s => .str s
  | .opaque d => Json.mkObj [("opaque", d)]

def decPlugin (j : Json) : Except String PState := do
  let k ← (← j.getObjVal? "kind").getStr?
  match k with
  | "shorter" => pure (.shorter { fragmentsModuleName := (optStr j "fragmentsModuleName").getD "fragments" })
  | "extract" =>
    let a := match j.getObjVal? "asyncClient" with | .ok (.bool b) => b | _ => true
    pure (.extract { asyncClient := a, opsModuleName := (optStr j "opsModuleName").getD "operations" })
  | "fwd" => pure (.fwd {})
  | "noReimports" => pure .noReimports
  | "identity" => pure .identity
  | _ => throw s!"unknown plugin kind {k}"

def decKind (j : Json) : Except String PluginKind := do
  match ← j.getStr? with
  | "shorter" => pure .shorter
  | "extract" => pure .extract
  | "fwd" => pure .fwd
  | "noReimports" => pure .noReimports
  | "identity" => pure .identity
  | k => throw s!"unknown plugin kind {k}"

/-- a resolved entry of `plugins = [...]`: {"class": x} | {"module": [x, ...]} -/
def decRef {α : Type} (dec : Json → Except String α) (j : Json) : Except String (PluginRef α) := do
  if let .ok v := j.getObjVal? "class" then return .classPath (← dec v)
  if let .ok v := j.getObjVal? "module" then return .module (← (← arrOf v).mapM dec)
  throw "plugin entry: class / module expected"

def decTestPlugin (j : Json) : Except String TestPlugin := do
  if let .ok v := j.getObjVal? "tag" then return .tag (← v.getStr?)
  if let .ok v := j.getObjVal? "raise" then return .raise (← v.getStr?)
  if let .ok _ := j.getObjVal? "none" then return .none
  if let .ok _ := j.getObjVal? "base" then return .base
  throw "test plugin: tag / raise / none / base expected"

def encM {α} (f : α → Json) : Except String α → Json
  | .ok a => Json.mkObj [("ok", f a)]
  | .error e => Json.mkObj [("error", e)]

def decEvent (j : Json) : Except String Event := do
  let hook ← (← j.getObjVal? "hook").getStr?
  pure { call := { hook := hook, opName := optStr j "op", opKind := optStr j "kind", opSnake := optStr j "snake", caller := optStr j "caller" },
         payload := ← decPayload hook (← j.getObjVal? "payload") }

def encOps (o : Option (String × OpsFile)) : Json :=
  match o with
  | none => .null
  | some (name, f) => Json.mkObj [("module", name), ("all", Json.arr (f.all.map Json.str).toArray),
      ("assigns", Json.arr (f.assigns.map (fun (n, ls) => Json.arr #[.str n, Json.arr (ls.map Json.str).toArray])).toArray)]

open Ariadne.ClientSem in
def encView (md : Method) : Json :=
  match shapeOf md with
  | none => Json.mkObj [("method", md.name), ("view", .null)]
  | some v =>
    Json.mkObj [("method", md.name), ("view", Json.mkObj [
      ("kind", match v.tail with | .call true _ _ => "async" | .call false _ _ => "sync" | .sub _ _ _ => "subscription"),
      ("op", match v.op with
        | .inline _ ls => Json.mkObj [("inline", Json.arr (ls.map Json.str).toArray)]
        | .const c => Json.mkObj [("const", c)]),
      ("opName", v.opName), ("variables", encEx v.variables), ("retClass", v.retClass),
      ("proj", Json.arr (v.proj.map Json.str).toArray),
      ("bodyImports", Json.arr (v.imports.map encImp).toArray)]),
      ("roundtrip", Json.arr ((bodyOf v).map encStmt).toArray), ("body", Json.arr (md.body.map encStmt).toArray)]

/-- the hypothesis `ClientInv` of `plugin_chain_preserves_methods`, decided on a concrete module:
    `pre ++ [funcDef, classDef]`, no class and at least one import statement in `pre` -/
def clientInvB (m : Module) : Bool :=
  match m.body.reverse with
  | .classDef _ :: .funcDef _ :: preRev =>
    preRev.all (fun t => t.classDef?.isNone) &&
    preRev.any (fun t => match t with | .simple (.importFrom _) => true | .simple (.import_ _) => true | _ => false)
  | _ => false

open Ariadne.ClientSem in
def handle (j : Json) : Except String Json := do
  let op ← Wire.fieldStr j "op"
  match op with
  | "manager" =>
    let w ← Wire.fieldStr j "wrapper"
    let plugins ← (← arrOf (← j.getObjVal? "plugins")).mapM decTestPlugin
    let obj ← Wire.fieldStr j "obj"
    match managerVia testStep w { hook := "" } plugins (.opaque obj) with
    | .ok (_, y) => pure (Json.mkObj [("result", payloadText y), ("error", .null)])
    | .error e => pure (Json.mkObj [("result", .null), ("error", e)])
  | "explorer" =>
    let entries ← (← arrOf (← j.getObjVal? "entries")).mapM (decRef (fun v => v.getStr?))
    pure (Json.arr ((getPluginsTypes entries).map Json.str).toArray)
  | "config" =>
    let config ← Wire.fieldJ j "config"
    pure (Json.mkObj [("shorterFragments", encM Json.str (shorterFragmentsModuleName config)),
      ("generatorFragments", encM Json.str (generatorFragmentsModuleName config)),
      ("opsModule", encM Json.str (extractOpsModuleName config)),
      ("asyncClient", encM Json.bool (extractAsyncClient config))])
  | "pipeline" =>
    let events ← (← arrOf (← j.getObjVal? "events")).mapM decEvent
    let customOps := match j.getObjVal? "customOps" with | .ok (.bool b) => b | _ => false
    let (plugins, genFrag) ← match j.getObjVal? "config" with
      | .ok cj => do
        let config ← Wire.dec cj
        -- the plugin classes, in the order the MODEL of plugins/explorer.get_plugins_types yields them
        let kinds ← match j.getObjVal? "entries" with
          | .ok ej => do pure (getPluginsTypes (← (← arrOf ej).mapM (decRef decKind)))
          | .error _ => (← arrOf (← j.getObjVal? "kinds")).mapM decKind
        match initPlugins config kinds, generatorFragmentsModuleName config with
        | .ok ps, .ok g => pure (ps, g)
        | .error e, _ => throw s!"model: plugin construction raises {e}"
        | _, .error e => throw s!"model: settings raise {e}"
      | .error _ => do
        let ps ← (← arrOf (← j.getObjVal? "plugins")).mapM decPlugin
        pure (ps, (optStr j "genFragmentsModule").getD "fragments")
    let x : Input := { plugins := plugins, events := events, customOps := customOps, genFragmentsModule := genFrag }
    let trigs := triggersOf x
    let (ps, err) := runPipeline { plugins := plugins } events
    let trace := ps.trace.map (fun (c, x, y) =>
      Json.mkObj [("hook", c.hook), ("op", jopt c.opName), ("in", encPayload x), ("out", encPayload y)])
    let views : List Json :=
      match ps.clientModule? with
      | some m =>
        match m.firstClass? with
        | some c => c.methods.map encView
        | none => []
      | none => []
    let invIn : Json :=
      match ps.trace.reverse.find? (fun t => t.1.hook == "generate_client_module") with
      | some (_, .module mi, _) => Json.bool (clientInvB mi)
      | _ => .null
    let pkgChecks : Json :=
      match ps.clientModule? with
      | some m =>
        let pkg : Pkg := { client := m, ops := ps.opsFile? }
        Json.mkObj [("wellScoped", wellScopedB pkg), ("annScoped", annScopedB m), ("importsExist", importsExistB x m ps.opsFile?),
          ("clientInvIn", invIn),
          ("clientInvOut", clientInvB m),
          ("unresolved", Json.arr ((unresolvedNames pkg).map Json.str).toArray)]
      | none => .null
    -- membership in `Proved_15` (Properties/C15.lean; `proved15B_iff`: this Bool IS `Proved_15`), and its ingredients
    let genShaped := Ariadne.C15.genShapedS x
    let genShapedE := Ariadne.C15.genShapedE x
    let withoutS := plugins.filter (fun p => !p.isShorter)
    let genShapedSR := Ariadne.C15.genShapedSR withoutS x
    let genShapedFR := Ariadne.C15.genShapedFR x
    let proved := Ariadne.C15.proved15B x
    pure (Json.mkObj [("trace", Json.arr trace.toArray), ("error", jopt err), ("ops", encOps ps.opsFile?),
      ("views", Json.arr views.toArray), ("checks", pkgChecks), ("genShapedS", genShaped), ("genShapedE", genShapedE), ("genShapedSR", genShapedSR), ("genShapedFR", genShapedFR), ("proved15", proved),
      ("loadsB", Ariadne.C15.loadsB plugins x), ("projOKB", Ariadne.C15.projOKB plugins x), ("validB", Ariadne.C15.validB x),
      ("triggers", Json.arr (trigs.map Json.str).toArray)])
  | "splitlines" =>
    let s ← Wire.fieldStr j "s"
    pure (Json.arr ((splitLines s).map Json.str).toArray)
  | _ => throw s!"unknown op {op}"

end C15Driver

def main : IO Unit := Ariadne.Wire.loop C15Driver.handle
