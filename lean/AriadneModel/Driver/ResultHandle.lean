/- Shared handler of the result-type drivers (C01, C05): ops `resultTypes`, `triggers`, `validate`, `leafConforms`. -/
import AriadneModel.Driver.Wire
import AriadneModel.Driver.GqlWire
import AriadneModel.Model.ResultTypes
import AriadneModel.Model.Triggers01
import AriadneModel.Spec.Pyd
import AriadneModel.Spec.Exec
import AriadneModel.Spec.Validate
import AriadneModel.Proofs.C01PlainDefs
import AriadneModel.Proofs.C01Regions
import AriadneModel.Proofs.C01RegionsUnp

open Lean (Json)
open Ariadne Ariadne.Gql Ariadne.ResultTypes

namespace Ariadne.ResultDriver

partial def encAnn : Ann → Json
  | .name n => Json.mkObj [("k", "name"), ("n", n)]
  | .cls n => Json.mkObj [("k", "cls"), ("n", n)]
  | .optional a => Json.mkObj [("k", "optional"), ("a", encAnn a)]
  | .list a => Json.mkObj [("k", "list"), ("a", encAnn a)]
  | .union as => Json.mkObj [("k", "union"), ("as", Json.arr (as.map encAnn).toArray)]
  | .disc a => Json.mkObj [("k", "disc"), ("a", encAnn a)]
  | .literal vs => Json.mkObj [("k", "literal"), ("vs", Json.arr (vs.map Json.str).toArray)]
  | .before t p => Json.mkObj [("k", "before"), ("type", t), ("parse", p)]

def encField (f : FieldDecl) : Json :=
  Json.mkObj [("py", f.py), ("ann", encAnn f.ann), ("alias", match f.alias with | some a => Json.str a | none => Json.null),
    ("disc", f.discriminator), ("defaultNone", f.defaultNone)]

def encClass (c : ClassDecl) : Json :=
  Json.mkObj [("name", c.name), ("bases", Json.arr (c.bases.map Json.str).toArray), ("fields", Json.arr (c.fields.map encField).toArray)]

def strs (xs : List String) : Json := Json.arr (xs.map Json.str).toArray

def encErr : GenErr → Json
  | .notSupported m => Json.mkObj [("error", "refusal:NotSupported"), ("msg", m)]
  | .parsing m => Json.mkObj [("error", "refusal:ParsingError"), ("msg", m)]
  | .internal e => Json.mkObj [("error", "internal:" ++ e)]
  | .fuel => Json.mkObj [("error", "fuel")]

def encOut (o : ModuleOut) : Json :=
  Json.mkObj [("classes", Json.arr (o.classes.map encClass).toArray), ("rebuild", strs o.rebuild),
    ("usedEnums", strs o.st.usedEnums), ("usedScalars", strs o.st.usedScalars), ("mixins", strs o.st.mixins),
    ("unpacked", strs o.st.unpacked), ("publicNames", strs o.st.publicNames),
    ("mixinImports", Json.arr (o.st.mixinImports.map fun (a, b) => Json.arr #[.str a, .str b]).toArray),
    ("marks", Json.arr (o.st.marks.map fun (n : Nat) => (n : Json)).toArray)]

def decEnv (j : Json) : Except String Env := do
  let schema ← GqlWire.schema (← j.getObjVal? "schema")
  let frags ← (← GqlWire.arr j "fragments").mapM GqlWire.fragment
  let scalars ← (← GqlWire.arr j "scalars").mapM fun s => do
    pure ({ name := ← GqlWire.str s "name", typeName := ← GqlWire.str s "typeName", parseName := ← GqlWire.optStr s "parseName" } : ScalarCfg)
  pure { schema := schema, frags := frags, scalars := scalars, snake := GqlWire.boolD j "snake" true }

def decOps (j : Json) : Except String (List Operation) := do
  (← GqlWire.arr j "operations").mapM GqlWire.operation

def lookupTable (j : Json) (k : String) : List (String × Json) :=
  match j.getObjVal? k with
  | .ok (.obj kvs) => kvs.toList   -- key order is irrelevant for a lookup table
  | _ => []

/-- pydantic-core's lax string parsers, supplied by the harness as tables computed with the real library -/
def decLax (j : Json) : Pyd.Lax :=
  let ti := lookupTable j "strInt"
  let tf := lookupTable j "strFloat"
  let tb := lookupTable j "strBool"
  { strInt := fun s => match ti.find? (·.1 == s) with
      | some (_, v) => (v.getInt?).toOption
      | none => none
    strFloat := fun s => match tf.find? (·.1 == s) with
      | some (_, .num n) => some (n.mantissa, n.exponent)
      | _ => none
    strBool := fun s => match tb.find? (·.1 == s) with
      | some (_, .bool b) => some b
      | _ => none }

def encVErr : Pyd.VErr → Json
  | .missing f => Json.mkObj [("err", "missing"), ("field", f)]
  | .wrongType t => Json.mkObj [("err", "wrongType"), ("expected", t)]
  | .tagNotFound => Json.mkObj [("err", "tagNotFound")]
  | .tagInvalid t => Json.mkObj [("err", "tagInvalid"), ("tag", t)]
  | .noUnionMember => Json.mkObj [("err", "noUnionMember")]
  | .literal => Json.mkObj [("err", "literal")]
  | .unknownClass n => Json.mkObj [("err", "unknownClass"), ("cls", n)]
  | .fuel => Json.mkObj [("err", "fuel")]

def pydEnv (env : ResultTypes.Env) (opOut : ModuleOut) (r : Triggers01.Run) (lax : Pyd.Lax) : Pyd.Env :=
  let fragClasses := r.frags.foldl (fun acc (_, x) => match x with
    | .ok o => acc ++ o.classes
    | .error _ => acc) []
  { classes := opOut.classes ++ fragClasses,
    enums := (env.schema.types.filter (·.kind == .enum)).map fun t => (t.name, t.values),
    lax := lax }

def handle (j : Json) : Except String Json := do
  let op ← Wire.fieldStr j "op"
  match op with
  | "resultTypes" =>
    let env ← decEnv j
    let d ← match j.getObjVal? "operation" with
      | .ok o => do pure (Definition.op (← GqlWire.operation o))
      | .error _ => do pure (Definition.frag (← GqlWire.fragment (← j.getObjVal? "fragment")))
    let marksIn ← (← GqlWire.arr j "marksIn").mapM fun x => x.getNat?
    match generate env 100000 d marksIn with
    | .ok out => pure (encOut out)
    | .error e => pure (encErr e)
  | "triggers" =>
    let env ← decEnv j
    let ops ← decOps j
    pure (strs (Triggers01.triggers { env := env, ops := ops }))
  | "respOK" =>
    -- Spec.Exec.respOK: can a conformant executor answer `operation` (as SENT) with each payload?
    let env ← decEnv j
    let o ← GqlWire.operation (← j.getObjVal? "operation")
    let payloads ← (← GqlWire.arr j "payloads").mapM Wire.dec
    match Validate.rootOf env.schema o with
    | some rt => pure (Json.arr (payloads.map fun p => Json.bool (Exec.respOK env.schema env.frags 1000 rt o.sel p)).toArray)
    | none => pure (Json.mkObj [("error", "no root type")])
  | "plainOK" =>
    -- which operations lie in the region of the proved plain-selection theorem (Properties/C01.lean)
    let env ← decEnv j
    let ops ← decOps j
    pure (Json.arr (ops.map fun o =>
      match o.name, Validate.rootOf env.schema o with
      | some n, some rt => Json.bool (C01Plain.PlainOK env (ResultTypes.pascal n) rt o.sid o.sel {})
      | _, _ => Json.bool false).toArray)
  | "regions" =>
    -- which of the decidable regions of the PROVED pipeline theorems of Properties/C01.lean the whole input lies in
    -- (C01_partial_plain / _abstract / _mixin / _mixabs), and whether the Lean validity hypothesis holds
    let env ← decEnv j
    let ops ← decOps j
    let inp : Triggers01.Input := { env := env, ops := ops }
    pure (Json.mkObj [("plain", Json.bool (decide (C01.PlainInput inp))), ("abstract", Json.bool (decide (C01.AbsInput inp))),
      ("mixin", Json.bool (decide (C01.MixInput inp))), ("mixabs", Json.bool (decide (C01.MixAbsInput inp))),
      ("unpacked", Json.bool (decide (C01.UnpInput inp))),
      ("valid", Json.bool (decide (C01.ValidInput inp)))])
  | "validDoc" =>
    let env ← decEnv j
    let ops ← decOps j
    pure (Json.bool (Validate.validDoc env.schema env.frags ops 1000))
  | "leafConforms" =>
    -- Spec.Exec.conforms / ResultLeaf-style lax conformance on one (type, value) pair
    let env ← decEnv j
    let t ← GqlWire.typeRef (← j.getObjVal? "type")
    let v ← Wire.dec (← j.getObjVal? "value")
    pure (Json.mkObj [("conforms", Exec.conforms env.schema true t v)])
  | "validate" =>
    -- validate payloads against the root class of operation number `index` (Spec.Pyd on the MODEL's classes)
    let env ← decEnv j
    let ops ← decOps j
    let idx ← Wire.fieldNat j "index"
    let payloads ← (← GqlWire.arr j "payloads").mapM Wire.dec
    let r := Triggers01.run { env := env, ops := ops }
    match r.ops[idx]? with
    | some (.ok out) =>
      match out.classes.head? with
      | some root =>
        let penv := pydEnv env out r (decLax j)
        let res := payloads.map fun p =>
          match Pyd.validate penv 1000 (.cls root.name) p with
          | .ok v => Json.mkObj [("ok", Wire.enc (Pyd.dump v))]
          | .error e => encVErr e
        pure (Json.arr res.toArray)
      | none => pure (Json.mkObj [("error", "no classes")])
    | some (.error e) => pure (encErr e)
    | none => throw "index out of range"
  | _ => throw s!"unknown op {op}"

end Ariadne.ResultDriver
