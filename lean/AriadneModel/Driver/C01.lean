/- Line-protocol driver for C01/C05/C08: the result-type generation model. -/
import AriadneModel.Driver.Wire
import AriadneModel.Driver.GqlWire
import AriadneModel.Model.ResultTypes

open Lean (Json)
open Ariadne Ariadne.Gql Ariadne.ResultTypes

partial def encAnn : Ann → Json
  | .name n => Json.mkObj [("k", "name"), ("n", n)]
  | .cls n => Json.mkObj [("k", "cls"), ("n", n)]
  | .optional a => Json.mkObj [("k", "optional"), ("a", encAnn a)]
  | .list a => Json.mkObj [("k", "list"), ("a", encAnn a)]
  | .union as => Json.mkObj [("k", "union"), ("as", Json.arr (as.map encAnn).toArray)]
  | .disc a => Json.mkObj [("k", "disc"), ("a", encAnn a)]
  | .literal vs => Json.mkObj [("k", "literal"), ("vs", Json.arr (vs.map Json.str).toArray)]
  | .before t p => Json.mkObj [("k", "before"), ("type", t), ("parse", p)]

def encField (f : FieldDecl) : Json :=
  Json.mkObj [("py", f.py), ("ann", encAnn f.ann), ("alias", match f.alias with | some a => Json.str a | none => Json.null),
    ("disc", f.discriminator), ("defaultNone", f.defaultNone)]

def encClass (c : ClassDecl) : Json :=
  Json.mkObj [("name", c.name), ("bases", Json.arr (c.bases.map Json.str).toArray), ("fields", Json.arr (c.fields.map encField).toArray)]

def strs (xs : List String) : Json := Json.arr (xs.map Json.str).toArray

def encErr : GenErr → Json
  | .notSupported m => Json.mkObj [("error", "refusal:NotSupported"), ("msg", m)]
  | .parsing m => Json.mkObj [("error", "refusal:ParsingError"), ("msg", m)]
  | .internal e => Json.mkObj [("error", "internal:" ++ e)]
  | .fuel => Json.mkObj [("error", "fuel")]

def encOut (o : ModuleOut) : Json :=
  Json.mkObj [("classes", Json.arr (o.classes.map encClass).toArray), ("rebuild", strs o.rebuild),
    ("usedEnums", strs o.st.usedEnums), ("usedScalars", strs o.st.usedScalars), ("mixins", strs o.st.mixins),
    ("unpacked", strs o.st.unpacked), ("publicNames", strs o.st.publicNames),
    ("mixinImports", Json.arr (o.st.mixinImports.map fun (a, b) => Json.arr #[.str a, .str b]).toArray),
    ("marks", Json.arr (o.st.marks.map fun (n : Nat) => (n : Json)).toArray)]

def decEnv (j : Json) : Except String Env := do
  let schema ← GqlWire.schema (← j.getObjVal? "schema")
  let frags ← (← GqlWire.arr j "fragments").mapM GqlWire.fragment
  let scalars ← (← GqlWire.arr j "scalars").mapM fun s => do
    pure ({ name := ← GqlWire.str s "name", typeName := ← GqlWire.str s "typeName", parseName := ← GqlWire.optStr s "parseName" } : ScalarCfg)
  pure { schema := schema, frags := frags, scalars := scalars, snake := GqlWire.boolD j "snake" true }

def handle (j : Json) : Except String Json := do
  let op ← Wire.fieldStr j "op"
  match op with
  | "resultTypes" =>
    let env ← decEnv j
    let d ← match j.getObjVal? "operation" with
      | .ok o => do pure (Definition.op (← GqlWire.operation o))
      | .error _ => do pure (Definition.frag (← GqlWire.fragment (← j.getObjVal? "fragment")))
    let marksIn ← (← GqlWire.arr j "marksIn").mapM fun x => x.getNat?
    match generate env 100000 d marksIn with
    | .ok out => pure (encOut out)
    | .error e => pure (encErr e)
  | _ => throw s!"unknown op {op}"

def main : IO Unit := Ariadne.Wire.loop handle
