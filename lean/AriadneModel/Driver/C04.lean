/- Line-protocol driver for C04: runs Model/Package.lean (`runPackage`: the package IR, the write log, the
   reported list) and Model/PackageTriggers.lean (`triggers`) on the harness's (configuration, schema,
   document).  Driver glue, no theorems.  Schema / document: Driver/GqlWire.lean (+ `vars`, `text` per
   operation); input definitions with defaults: the `defs` wire format of Driver/C06.lean / C19.lean. -/
import AriadneModel.Driver.Wire
import AriadneModel.Driver.GqlWire
import AriadneModel.Model.Package
import AriadneModel.Model.PackageTriggers
import AriadneModel.Model.PackageValid
import AriadneModel.Spec.PyScope

open Lean (Json)
open Ariadne Ariadne.Wire Ariadne.Gql

namespace C04Driver
open Ariadne.Package

def getList (j : Json) (k : String) : Except String (List Json) := GqlWire.arr j k

partial def decInTypeRef (j : Json) : Except String InputGen.TypeRef := do
  match j with
  | .arr #[.str "named", .str n] => pure (.named n)
  | .arr #[.str "list", t] => do pure (.list (← decInTypeRef t))
  | .arr #[.str "nonnull", t] => do pure (.nonNull (← decInTypeRef t))
  | _ => throw "typeref"

partial def decLit (j : Json) : Except String InputGen.Lit := do
  let k ← fieldStr j "k"
  match k with
  | "int" => pure (.int (← (← j.getObjVal? "v").getInt?))
  | "float" => pure (.float (← fieldStr j "v"))
  | "str" => pure (.str (← fieldStr j "v"))
  | "bool" => pure (.bool (← fieldBool j "v"))
  | "null" => pure .null
  | "enum" => pure (.enum (← fieldStr j "v"))
  | "list" => do
    let xs ← (← getList j "v").mapM decLit
    pure (.list xs)
  | "obj" => do
    let xs ← (← getList j "v").mapM fun it => do
      let pr ← it.getArr?
      if h : pr.size = 2 then pure (← pr[0].getStr?, ← decLit pr[1]) else throw "obj pair"
    pure (.obj xs)
  | _ => throw s!"lit kind {k}"

def decField (j : Json) : Except String InputGen.InputField := do
  let d ← match j.getObjVal? "default" with
    | .ok .null => pure none
    | .ok v => do pure (some (← decLit v))
    | .error _ => pure none
  pure ⟨← fieldStr j "name", ← decInTypeRef (← field j "type"), d, false⟩

def decDef (j : Json) : Except String InputGen.TypeDef := do
  let k ← fieldStr j "kind"
  let n ← fieldStr j "name"
  match k with
  | "enum" => do
    let vs ← (← getList j "values").mapM (·.getStr?)
    pure (.enum n vs)
  | "input" => do
    let fs ← (← getList j "fields").mapM decField
    pure (.input n fs)
  | "scalar" => pure (.scalar n)
  | _ => pure (.composite n)

def strD (j : Json) (k d : String) : String :=
  match j.getObjVal? k with
  | .ok (.str s) => s
  | _ => d

def decConfig (j : Json) : Except String Config := do
  let scalars ← (← getList j "scalars").mapM fun s => do
    pure (← fieldStr s "name", ({ type_ := ← fieldStr s "type", serialize := ← GqlWire.optStr s "serialize",
                                   parse := ← GqlWire.optStr s "parse", import_ := ← GqlWire.optStr s "import" } : Scalars.ScalarData))
  pure { clientName := strD j "clientName" "Client", clientFile := strD j "clientFile" "client",
         baseClientName := strD j "baseClientName" "AsyncBaseClient", baseClientFile := strD j "baseClientFile" "async_base_client.py",
         defaultBaseClient := GqlWire.boolD j "defaultBaseClient" true,
         enumsModule := strD j "enumsModule" "enums", inputsModule := strD j "inputsModule" "input_types",
         fragmentsModule := strD j "fragmentsModule" "fragments",
         async := GqlWire.boolD j "async" true, snake := GqlWire.boolD j "snake" true,
         allInputs := GqlWire.boolD j "allInputs" true, allEnums := GqlWire.boolD j "allEnums" true,
         customOps := GqlWire.boolD j "customOps" false,
         filesToInclude := ← GqlWire.strList j "filesToInclude", scalars := scalars,
         extractOps := ← GqlWire.optStr j "extractOps" }

def decOp (j : Json) : Except String OpIn := do
  let op ← GqlWire.operation j
  let vars ← (← getList j "vars").mapM fun v => do
    pure ({ name := ← fieldStr v "name", type := ← GqlWire.typeRef (← field v "type") } : Arguments.VarDef)
  pure { op := op, vars := vars, text := strD j "text" "" }

def decInput (j : Json) : Except String Input := do
  pure { schema := ← GqlWire.schema (← field j "schema"),
         frags := ← (← getList j "fragments").mapM GqlWire.fragment,
         ops := ← (← getList j "operations").mapM decOp,
         defs := ← (← getList j "defs").mapM decDef }

def strs (xs : List String) : Json := Json.arr (xs.map Json.str).toArray

def kindName : ModKind → String
  | .result => "result" | .fragments => "fragments" | .inputs => "inputs" | .enums => "enums"
  | .client => "client" | .init => "init" | .copied => "copied" | .custom => "custom"

def encModule (m : ModuleIR) : Json :=
  Json.mkObj [("file", m.file), ("kind", kindName m.kind),
    ("imports", Json.arr (m.effectiveImports.flatMap fun i => i.names.map fun n => Json.arr #[(i.level : Nat), .str i.module, .str n]).toArray),
    ("classes", Json.arr (m.classes.map fun c => Json.mkObj [("name", c.name), ("bases", strs c.bases), ("fields", strs c.fields)]).toArray),
    ("methods", Json.arr (m.methods.map fun f => Json.mkObj [("name", f.name), ("params", strs f.params)]).toArray),
    ("rebuilds", strs m.rebuilds), ("functions", strs m.funcs),
    ("all", match m.all with | some a => strs a | none => Json.null)]

def encErr (e : ResultTypes.GenErr) : List (String × Json) :=
  match e with
  | .notSupported m => [("error", "refusal:NotSupported"), ("msg", m)]
  | .parsing m => [("error", "refusal:ParsingError"), ("msg", m)]
  | .internal x => [("error", .str ("internal:" ++ x))]
  | .fuel => [("error", "fuel")]

def handle (j : Json) : Except String Json := do
  let op ← fieldStr j "op"
  let cfg ← decConfig (← field j "config")
  let inp ← decInput j
  match op with
  | "package" =>
    let r := PackageTriggers.modelRun cfg inp
    match r.outcome with
    | .ok p =>
      pure (Json.mkObj [("ok", Json.mkObj [("modules", Json.arr (p.modules.map encModule).toArray), ("writeLog", strs p.writeLog),
        ("reported", strs p.reported), ("onDisk", strs p.onDisk), ("wellScoped", Json.arr ((Spec.PyScope.violations p).map Json.str).toArray),
        ("proved", Spec.PyScope.provedB cfg inp), ("leafNamesOK", PackageValid.leafNamesOK inp),
        ("openPart", p.modules.all Spec.PyScope.openPart), ("documented", true)])])
    | .error e => pure (Json.mkObj (encErr e ++ [("written", strs r.written), ("mkdir", r.mkdir), ("documented", documentedRefusal e), ("proved", Spec.PyScope.provedB cfg inp)]))
  | "triggers" => pure (strs (PackageTriggers.triggers cfg inp))
  | "valid" => pure (strs (PackageValid.invalidParts cfg inp))
  | _ => throw s!"unknown op {op}"

end C04Driver

def main : IO Unit := Ariadne.Wire.loop C04Driver.handle
