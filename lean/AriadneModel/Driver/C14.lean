/-
  Line-protocol driver for C14: runs the MODEL of the builder generators + builder runtime + client
  assembly on the harness's inputs.

    {"op":"case","schema":S,"seqs":[[OP,...],...]}
        -> {"package": TABLE, "seqs": [[RESULT,...],...]}
    S      = {"types":[{"name","kind","fields":[{"name","py","opPy","ty":T,"args":[{"name","py","ty":T}]}],
                        "interfaces":[..],"members":[..]}], "query": name|null, "mutation": name|null}
    T      = {"n": name} | {"l": T} | {"nn": T}
    OP     = {"type":"query"|"mutation","name":str,"fields":[E,...],"lets":[[x, E],...]?}
             (`lets`: the assignments `x = E` executed before the call; variables stay bound for the rest of
              the sequence)
    E      = {"k":"attr","cls","attr"} | {"k":"call","cls","attr","kw":[[param, wire value],...]}
           | {"k":"alias","e":E,"a":str} | {"k":"fields","e":E,"cs":[E]} | {"k":"on","e":E,"ty":str,"cs":[E]}
           | {"k":"var","x":str}
    RESULT = {"doc": DOC | null, "error": str | null, "valid": bool, "trig": {...}, "deepVars": bool}
    DOC    = {"type","name","varDefs":[[name, type]],"sels":[SEL],"values": wire object (the `variables` of the request),
              "operationName": the `operation_name` handed to `execute`}
  Each sequence starts from the state right after import (history = the earlier OPs of the sequence).
  Every sequence is run by `runPOp` (Model/BuilderLet.lean), which on variable-free operations IS `runOp`
  (`Properties/C14.lean: runProg_conservative`); the triggers of the findings stated on tree expressions are
  evaluated on the operation with its variables written out (`POp.inline`).
-/
import AriadneModel.Driver.Wire
import AriadneModel.Spec.BuilderLetDoc

open Lean (Json)
open Ariadne Ariadne.Wire Ariadne.Builder Ariadne.CustomGen Ariadne.BuilderDoc

partial def decTRef (j : Json) : Except String TRef :=
  match j.getObjVal? "n" with
  | .ok n => do pure (.named (← n.getStr?))
  | .error _ =>
    match j.getObjVal? "l" with
    | .ok t => do pure (.list (← decTRef t))
    | .error _ => do pure (.nonNull (← decTRef (← j.getObjVal? "nn")))

def decKind (s : String) : Except String Kind :=
  match s with
  | "object" => pure .object
  | "interface" => pure .interface
  | "union" => pure .union
  | "scalar" => pure .scalar
  | "enum" => pure .enum
  | "input" => pure .input
  | _ => throw s!"kind {s}"

def arrOf (j : Json) (k : String) : Except String (List Json) :=
  match j.getObjVal? k with
  | .ok (.arr xs) => pure xs.toList
  | .ok .null => pure []
  | .ok _ => throw s!"{k}: array expected"
  | .error _ => pure []

def strList (j : Json) (k : String) : Except String (List String) := do
  (← arrOf j k).mapM (·.getStr?)

def optStr (j : Json) (k : String) : Except String (Option String) :=
  match j.getObjVal? k with
  | .ok (.str s) => pure (some s)
  | _ => pure none

def decArg (j : Json) : Except String ArgDef := do
  pure { name := ← fieldStr j "name", py := ← fieldStr j "py", ty := ← decTRef (← field j "ty") }

def decField (j : Json) : Except String FieldDef := do
  pure { name := ← fieldStr j "name", py := ← fieldStr j "py", opPy := ← fieldStr j "opPy",
         ty := ← decTRef (← field j "ty"), args := ← (← arrOf j "args").mapM decArg }

def decType (j : Json) : Except String TypeDef := do
  pure { name := ← fieldStr j "name", kind := ← decKind (← fieldStr j "kind"),
         fields := ← (← arrOf j "fields").mapM decField,
         interfaces := ← strList j "interfaces", members := ← strList j "members" }

def decSchema (j : Json) : Except String Schema := do
  pure { types := ← (← arrOf j "types").mapM decType, query := ← optStr j "query", mutation := ← optStr j "mutation" }

partial def decExpr (j : Json) : Except String PExpr := do
  match ← fieldStr j "k" with
  | "var" => pure (.var (← fieldStr j "x"))
  | "attr" => pure (.attr (← fieldStr j "cls") (← fieldStr j "attr"))
  | "call" =>
    let kw ← (← arrOf j "kw").mapM fun it => do
      let pr ← it.getArr?
      if h : 2 ≤ pr.size then
        let k ← pr[0].getStr?
        let v ← dec pr[1]
        pure (k, v)
      else throw "kw pair expected"
    pure (.call (← fieldStr j "cls") (← fieldStr j "attr") kw)
  | "alias" => pure (.alias (← decExpr (← field j "e")) (← fieldStr j "a"))
  | "fields" => pure (.fields (← decExpr (← field j "e")) (← (← arrOf j "cs").mapM decExpr))
  | "on" => pure (.on (← decExpr (← field j "e")) (← fieldStr j "ty") (← (← arrOf j "cs").mapM decExpr))
  | k => throw s!"expr kind {k}"

def decLet (j : Json) : Except String (String × PExpr) := do
  let pr ← j.getArr?
  if h : 2 ≤ pr.size then
    pure (← pr[0].getStr?, ← decExpr pr[1])
  else throw "let pair expected"

def decOp (j : Json) : Except String POp := do
  pure { lets := ← (← arrOf j "lets").mapM decLet,
         opType := ← fieldStr j "type", name := ← fieldStr j "name", fields := ← (← arrOf j "fields").mapM decExpr }

def encOptStr : Option String → Json
  | some s => .str s
  | none => .null

partial def encSel : Sel → Json
  | .field al nm args hs sels =>
    Json.mkObj [("f", nm), ("a", encOptStr al),
      ("args", .arr (args.map fun (k, u) => Json.arr #[.str k, .str u]).toArray),
      ("set", hs), ("sels", .arr (sels.map encSel).toArray)]
  | .frag ty sels => Json.mkObj [("on", ty), ("sels", .arr (sels.map encSel).toArray)]

/-- the request `execute` receives (`Doc.request`): document IR, `variables`, `operationName` -/
def encDoc (d : Doc) : Json :=
  let r := d.request
  Json.mkObj [("type", r.query.opType), ("name", r.query.name),
    ("varDefs", .arr (r.query.varDefs.map fun (n, t) => Json.arr #[.str n, .str t]).toArray),
    ("sels", .arr (r.query.sels.map encSel).toArray),
    ("values", enc (.obj r.variables)), ("operationName", r.operationName)]

def encErr : Err → String
  | .recursion => "RecursionError"
  | .attribute => "AttributeError"
  | .typeErr => "TypeError"
  | .internal w => "internal:" ++ w

def encAcc (a : Accessor) : Json :=
  Json.mkObj [("attr", a.attr), ("kind", match a.kind with | .shared => "shared" | .method => "method"),
    ("cls", a.cls), ("fieldName", a.fieldName),
    ("args", .arr (a.args.map fun s => Json.mkObj [("key", s.key), ("ty", s.ty), ("param", s.param), ("required", s.required)]).toArray)]

def encClass (c : ClassDef) : Json :=
  Json.mkObj [("name", c.name), ("accessors", .arr (c.accessors.map encAcc).toArray),
    ("fields", c.hasFields), ("on", c.hasOn), ("alias", c.hasAlias)]

def encPackage (p : Package) : Json := .arr (p.classes.map encClass).toArray

/-- run one sequence from the state after import; per op: result + validator verdict + triggers -/
def runSeq (s : Schema) (p : Package) (ops : List POp) : List Json :=
  let rec go (hist : List Op) (defs : List (String × Expr)) (info : List VarInfo) (env : Env) (st : Store) : List POp → List Json
    | [] => []
    | op :: rest =>
      let (r, env1, st1) := runPOp p op env st
      -- the operation with its variables written out (what the tree-expression triggers are stated on)
      let (inl, defs1) : Op × List (String × Expr) := match op.inline defs with
        | some x => x
        | none => ({ opType := op.opType, name := op.name, fields := [] }, defs)
      let trig := Json.mkObj [
        ("listArg", trigListArgList p inl.fields),
        ("pyName", trigPyNameList p inl.fields), ("sharedMut", trigSharedMut hist inl),
        ("nameClash", trigClash r), ("ownedReuse", trigOwnedReuse info op)]
      -- region of the FIXED finding C14-F2 (an argument below level 2): no trigger any more, only measured
      let deep : Json := trigDeepList 1 inl.fields
      let out := match r with
        | .ok d => Json.mkObj [("doc", encDoc d), ("error", .null), ("valid", validDoc s d), ("trig", trig), ("deepVars", deep)]
        | .error e => Json.mkObj [("doc", .null), ("error", encErr e), ("valid", false), ("trig", trig), ("deepVars", deep)]
      out :: go (hist ++ [inl]) defs1 (infoLets op.lets info) env1 st1 rest
  go [] [] [] [] p.initStore ops

def handle (j : Json) : Except String Json := do
  let op ← fieldStr j "op"
  match op with
  | "case" =>
    let s ← decSchema (← field j "schema")
    let p := genPackage s
    let seqs ← (← arrOf j "seqs").mapM fun sq => do
      match sq with
      | .arr ops => ops.toList.mapM decOp
      | _ => throw "seq: array expected"
    pure (Json.mkObj [("package", encPackage p), ("seqs", .arr (seqs.map fun ops => Json.arr (runSeq s p ops).toArray).toArray)])
  | "formatNames" =>
    -- names `_format_variable_name` hands out for a list of variable names at index idx (from an empty set)
    let idx ← fieldNat j "idx"
    let names ← strList j "names"
    match collectVars idx (names.map fun n => { key := n, ty := "", value := .null }) [] with
    | .ok (fv, _) => pure (.arr (fv.map fun v => Json.str v.uname).toArray)
    | .error e => pure (Json.mkObj [("error", encErr e)])
  | _ => throw s!"unknown op {op}"

def main : IO Unit := Ariadne.Wire.loop handle
