/-
  Line-protocol driver for C16.  Ops:
    {"op":"gen","schema":S,"tm":..,"sv":..}   -> model `gen`, its pruned imports, WF / trigger predicates,
                                                  the executable instance of `schema_roundtrip`, and
                                                  Spec/GqlCollect `typeMapOrder S` (keys of schema.type_map)
    {"op":"eval","module":M,"sv":..}          -> Spec `evalSchemaModule`
    {"op":"dispatch","path":..}               -> model of the target-file dispatch
    {"op":"repr","v":PV}                      -> Model/PyRepr `pyRepr` (the text of `repr(v)`), and `finitePV`
    {"op":"read","text":..}                   -> Spec/PyLiteral `readCExpr` (the value of a literal text / a bare name)
  JSON shapes are documented in harness/c16.py (`schema_to_ir`, `module_to_ir`).  Driver glue: trusted base.
-/
import AriadneModel.Driver.Wire
import AriadneModel.Model.SchemaGen
import AriadneModel.Spec.PySchemaEval
import AriadneModel.Model.SchemaWF
import AriadneModel.Model.PyRepr
import AriadneModel.Spec.PyLiteral
import AriadneModel.Spec.GqlCollect

open Lean (Json)
open Ariadne Ariadne.Schema Ariadne.SchemaGen Ariadne.PySchemaEval

namespace C16Drv

/-! ### encoders -/

def optStr : Option String → Json
  | none => .null
  | some s => .str s

partial def encPV : PyVal → Json
  | .none => .null
  | .bool b => Json.mkObj [("b", .bool b)]
  | .int i => Json.mkObj [("i", .str (toString i))]
  | .float r => Json.mkObj [("f", .str r)]
  | .str s => Json.mkObj [("s", .str s)]
  | .list xs => Json.mkObj [("l", .arr (xs.map encPV).toArray)]
  | .dict kvs => Json.mkObj [("d", .arr (kvs.map fun (k, v) => Json.arr #[.str k, encPV v]).toArray)]

def encDefault : Default → Json
  | .undefined => .str "undefined"
  | .value v => Json.mkObj [("v", encPV v)]

def kindStr : Kind → String
  | .scalar => "scalar" | .object => "object" | .interface => "interface"
  | .union => "union" | .enum => "enum" | .input => "input"

partial def encRef : TypeRef → Json
  | .named n k => Json.mkObj [("n", .str n), ("k", .str (kindStr k))]
  | .list t => Json.mkObj [("list", encRef t)]
  | .nonNull t => Json.mkObj [("nonNull", encRef t)]

def encArgDef (a : ArgDef) : Json :=
  Json.mkObj [("name", .str a.name), ("type", encRef a.type), ("default", encDefault a.default),
    ("description", optStr a.description), ("deprecation", optStr a.deprecation)]

def encFieldDef (f : FieldDef) : Json :=
  Json.mkObj [("name", .str f.name), ("type", encRef f.type), ("args", .arr (f.args.map encArgDef).toArray),
    ("description", optStr f.description), ("deprecation", optStr f.deprecation)]

def strs (xs : List String) : Json := .arr (xs.map Json.str).toArray

def encTypeDef : TypeDef → Json
  | .scalar n d u => Json.mkObj [("kind", "scalar"), ("name", .str n), ("description", optStr d), ("specifiedBy", optStr u)]
  | .object n d is fs => Json.mkObj [("kind", "object"), ("name", .str n), ("description", optStr d),
      ("interfaces", strs is), ("fields", .arr (fs.map encFieldDef).toArray)]
  | .interface n d is fs => Json.mkObj [("kind", "interface"), ("name", .str n), ("description", optStr d),
      ("interfaces", strs is), ("fields", .arr (fs.map encFieldDef).toArray)]
  | .union n d ms => Json.mkObj [("kind", "union"), ("name", .str n), ("description", optStr d), ("members", strs ms)]
  | .enum n d vs => Json.mkObj [("kind", "enum"), ("name", .str n), ("description", optStr d),
      ("values", .arr (vs.map fun v => Json.mkObj [("name", .str v.name), ("value", encPV v.value),
        ("description", optStr v.description), ("deprecation", optStr v.deprecation)]).toArray)]
  | .input n d fs o => Json.mkObj [("kind", "input"), ("name", .str n), ("description", optStr d),
      ("fields", .arr (fs.map encArgDef).toArray), ("oneOf", .bool o)]

def encRoot : Option (Name × Kind) → Json
  | none => .null
  | some (n, k) => .arr #[.str n, .str (kindStr k)]

def encDirectiveDef (d : DirectiveDef) : Json :=
  Json.mkObj [("name", .str d.name), ("description", optStr d.description), ("repeatable", .bool d.repeatable),
    ("locations", strs d.locations), ("args", .arr (d.args.map encArgDef).toArray)]

def encSchema (S : SchemaIR) : Json :=
  Json.mkObj [("types", .arr (S.types.map encTypeDef).toArray), ("query", encRoot S.query),
    ("mutation", encRoot S.mutation), ("subscription", encRoot S.subscription),
    ("directives", .arr (S.directives.map encDirectiveDef).toArray), ("description", optStr S.description)]

def encCE : CExpr → Json
  | .const v => Json.mkObj [("c", encPV v)]
  | .name n => Json.mkObj [("n", .str n)]

partial def encTX : TExpr → Json
  | .name n => Json.mkObj [("name", .str n)]
  | .cast fn cls tm key => Json.mkObj [("cast", strs [fn, cls, tm, key])]
  | .call fn a => Json.mkObj [("call", .str fn), ("arg", encTX a)]

def encAE (a : ArgE) : Json :=
  Json.mkObj [("ctor", .str a.ctor), ("type", encTX a.type), ("default", encCE a.default),
    ("description", encCE a.description), ("deprecation", encCE a.deprecation)]

def pairs {α : Type} (f : α → Json) (xs : List (String × α)) : Json :=
  .arr (xs.map fun (k, v) => Json.arr #[.str k, f v]).toArray

def encFE (f : FieldE) : Json :=
  Json.mkObj [("ctor", .str f.ctor), ("type", encTX f.type), ("args", pairs encAE f.args),
    ("description", encCE f.description), ("deprecation", encCE f.deprecation)]

def encNames : NamesE → Json
  | .emptyConst => .str "empty"
  | .thunk c l e tm keys => Json.mkObj [("thunk", strs [c, l, e, tm]), ("keys", strs keys)]

def encFields : FieldsE → Json
  | .emptyConst => .str "empty"
  | .thunk items => Json.mkObj [("thunk", pairs encFE items)]

def encInFields : InFieldsE → Json
  | .emptyConst => .str "empty"
  | .thunk items => Json.mkObj [("thunk", pairs encAE items)]

def encEV (v : EnumValE) : Json :=
  Json.mkObj [("ctor", .str v.ctor), ("value", encCE v.value), ("description", encCE v.description),
    ("deprecation", encCE v.deprecation)]

def encTE : TypeE → Json
  | .scalar c n d u => Json.mkObj [("t", "scalar"), ("ctor", .str c), ("name", encCE n), ("description", encCE d), ("specifiedBy", encCE u)]
  | .composite c n d is fs => Json.mkObj [("t", "composite"), ("ctor", .str c), ("name", encCE n), ("description", encCE d),
      ("interfaces", encNames is), ("fields", encFields fs)]
  | .union c n d ts => Json.mkObj [("t", "union"), ("ctor", .str c), ("name", encCE n), ("description", encCE d), ("types", encNames ts)]
  | .enum c n d vs => Json.mkObj [("t", "enum"), ("ctor", .str c), ("name", encCE n), ("description", encCE d), ("values", pairs encEV vs)]
  | .input c n d fs => Json.mkObj [("t", "input"), ("ctor", .str c), ("name", encCE n), ("description", encCE d), ("fields", encInFields fs)]

def encRootE : RootE → Json
  | .none => .null
  | .cast fn cls tm key => Json.mkObj [("cast", strs [fn, cls, tm, key])]

def encDE (d : DirectiveE) : Json :=
  Json.mkObj [("ctor", .str d.ctor), ("name", encCE d.name), ("description", encCE d.description),
    ("repeatable", encCE d.repeatable),
    ("locations", .arr (d.locations.map fun (a, b) => strs [a, b]).toArray),
    ("args", match d.args with | none => .null | some items => pairs encAE items)]

def encSE (s : SchemaE) : Json :=
  Json.mkObj [("ctor", .str s.ctor), ("query", encRootE s.query), ("mutation", encRootE s.mutation),
    ("subscription", encRootE s.subscription), ("typesTm", .str s.typesTm),
    ("directives", .arr (s.directives.map encDE).toArray), ("description", encCE s.description)]

def encImports (is : List ImportE) : Json :=
  .arr (is.map fun i => Json.mkObj [("module", .str i.module), ("names", strs i.names)]).toArray

def encModule (m : PyModuleIR) : Json :=
  Json.mkObj [("imports", encImports m.imports), ("tmName", .str m.tmName), ("tmAnn", .str m.tmAnn),
    ("typeMap", pairs encTE m.typeMap), ("svName", .str m.svName), ("svAnn", .str m.svAnn), ("schema", encSE m.schema)]

/-! ### decoders -/

def getStrs (j : Json) : Except String (List String) := do
  let a ← j.getArr?
  a.toList.mapM fun x => x.getStr?

def decOptStr (j : Json) : Except String (Option String) :=
  match j with
  | .null => pure none
  | .str s => pure (some s)
  | _ => throw "null or string expected"

partial def decPV (j : Json) : Except String PyVal :=
  match j with
  | .null => pure .none
  | _ =>
    match j.getObjVal? "b" with
    | .ok b => do pure (.bool (← b.getBool?))
    | .error _ =>
    match j.getObjVal? "i" with
    | .ok i => do
      let s ← i.getStr?
      match s.toInt? with
      | some n => pure (.int n)
      | none => throw s!"bad int {s}"
    | .error _ =>
    match j.getObjVal? "f" with
    | .ok f => do pure (.float (← f.getStr?))
    | .error _ =>
    match j.getObjVal? "s" with
    | .ok s => do pure (.str (← s.getStr?))
    | .error _ =>
    match j.getObjVal? "l" with
    | .ok l => do
      let a ← l.getArr?
      pure (.list (← a.toList.mapM decPV))
    | .error _ =>
    match j.getObjVal? "d" with
    | .ok d => do
      let a ← d.getArr?
      let kvs ← a.toList.mapM fun it => do
        let pr ← it.getArr?
        if h : pr.size = 2 then
          pure ((← pr[0].getStr?), (← decPV pr[1]))
        else throw "pair expected"
      pure (.dict kvs)
    | .error _ => throw "PyVal expected"

def decDefault (j : Json) : Except String Default :=
  match j with
  | .str "undefined" => pure .undefined
  | _ => do pure (.value (← decPV (← j.getObjVal? "v")))

def decKind (s : String) : Except String Kind :=
  match s with
  | "scalar" => pure .scalar | "object" => pure .object | "interface" => pure .interface
  | "union" => pure .union | "enum" => pure .enum | "input" => pure .input
  | _ => throw s!"kind {s}"

partial def decRef (j : Json) : Except String TypeRef :=
  match j.getObjVal? "list" with
  | .ok t => do pure (.list (← decRef t))
  | .error _ =>
  match j.getObjVal? "nonNull" with
  | .ok t => do pure (.nonNull (← decRef t))
  | .error _ => do
    let n ← (← j.getObjVal? "n").getStr?
    let k ← decKind (← (← j.getObjVal? "k").getStr?)
    pure (.named n k)

def decArgDef (j : Json) : Except String ArgDef := do
  pure { name := ← (← j.getObjVal? "name").getStr?, type := ← decRef (← j.getObjVal? "type"),
         default := ← decDefault (← j.getObjVal? "default"),
         description := ← decOptStr (← j.getObjVal? "description"),
         deprecation := ← decOptStr (← j.getObjVal? "deprecation") }

def decList {α : Type} (f : Json → Except String α) (j : Json) : Except String (List α) := do
  let a ← j.getArr?
  a.toList.mapM f

def decFieldDef (j : Json) : Except String FieldDef := do
  pure { name := ← (← j.getObjVal? "name").getStr?, type := ← decRef (← j.getObjVal? "type"),
         args := ← decList decArgDef (← j.getObjVal? "args"),
         description := ← decOptStr (← j.getObjVal? "description"),
         deprecation := ← decOptStr (← j.getObjVal? "deprecation") }

def decTypeDef (j : Json) : Except String TypeDef := do
  let kind ← (← j.getObjVal? "kind").getStr?
  let n ← (← j.getObjVal? "name").getStr?
  let d ← decOptStr (← j.getObjVal? "description")
  match kind with
  | "scalar" => pure (.scalar n d (← decOptStr (← j.getObjVal? "specifiedBy")))
  | "object" => pure (.object n d (← getStrs (← j.getObjVal? "interfaces")) (← decList decFieldDef (← j.getObjVal? "fields")))
  | "interface" => pure (.interface n d (← getStrs (← j.getObjVal? "interfaces")) (← decList decFieldDef (← j.getObjVal? "fields")))
  | "union" => pure (.union n d (← getStrs (← j.getObjVal? "members")))
  | "enum" =>
    let vs ← decList (fun v => do
      pure ({ name := ← (← v.getObjVal? "name").getStr?, value := ← decPV (← v.getObjVal? "value"),
              description := ← decOptStr (← v.getObjVal? "description"),
              deprecation := ← decOptStr (← v.getObjVal? "deprecation") } : EnumValDef)) (← j.getObjVal? "values")
    pure (.enum n d vs)
  | "input" => pure (.input n d (← decList decArgDef (← j.getObjVal? "fields")) (← (← j.getObjVal? "oneOf").getBool?))
  | _ => throw s!"type kind {kind}"

def decRoot (j : Json) : Except String (Option (Name × Kind)) :=
  match j with
  | .null => pure none
  | _ => do
    let a ← getStrs j
    match a with
    | [n, k] => pure (some (n, ← decKind k))
    | _ => throw "root"

def decDirectiveDef (j : Json) : Except String DirectiveDef := do
  pure { name := ← (← j.getObjVal? "name").getStr?, description := ← decOptStr (← j.getObjVal? "description"),
         repeatable := ← (← j.getObjVal? "repeatable").getBool?, locations := ← getStrs (← j.getObjVal? "locations"),
         args := ← decList decArgDef (← j.getObjVal? "args") }

def decSchema (j : Json) : Except String SchemaIR := do
  pure { types := ← decList decTypeDef (← j.getObjVal? "types"), query := ← decRoot (← j.getObjVal? "query"),
         mutation := ← decRoot (← j.getObjVal? "mutation"), subscription := ← decRoot (← j.getObjVal? "subscription"),
         directives := ← decList decDirectiveDef (← j.getObjVal? "directives"),
         description := ← decOptStr (← j.getObjVal? "description") }

def decCE (j : Json) : Except String CExpr :=
  match j.getObjVal? "n" with
  | .ok n => do pure (.name (← n.getStr?))
  | .error _ => do pure (.const (← decPV (← j.getObjVal? "c")))

def cast4 (j : Json) : Except String (String × String × String × String) := do
  match ← getStrs j with
  | [a, b, c, d] => pure (a, b, c, d)
  | _ => throw "4 strings expected"

partial def decTX (j : Json) : Except String TExpr :=
  match j.getObjVal? "name" with
  | .ok n => do pure (.name (← n.getStr?))
  | .error _ =>
  match j.getObjVal? "cast" with
  | .ok c => do
    let (a, b, c, d) ← cast4 c
    pure (.cast a b c d)
  | .error _ => do
    pure (.call (← (← j.getObjVal? "call").getStr?) (← decTX (← j.getObjVal? "arg")))

def decAE (j : Json) : Except String ArgE := do
  pure { ctor := ← (← j.getObjVal? "ctor").getStr?, type := ← decTX (← j.getObjVal? "type"),
         default := ← decCE (← j.getObjVal? "default"), description := ← decCE (← j.getObjVal? "description"),
         deprecation := ← decCE (← j.getObjVal? "deprecation") }

def decPairs {α : Type} (f : Json → Except String α) (j : Json) : Except String (List (String × α)) := do
  let a ← j.getArr?
  a.toList.mapM fun it => do
    let pr ← it.getArr?
    if h : pr.size = 2 then pure ((← pr[0].getStr?), (← f pr[1])) else throw "pair expected"

def decFE (j : Json) : Except String FieldE := do
  pure { ctor := ← (← j.getObjVal? "ctor").getStr?, type := ← decTX (← j.getObjVal? "type"),
         args := ← decPairs decAE (← j.getObjVal? "args"), description := ← decCE (← j.getObjVal? "description"),
         deprecation := ← decCE (← j.getObjVal? "deprecation") }

def decNames (j : Json) : Except String NamesE :=
  match j with
  | .str _ => pure .emptyConst
  | _ => do
    let (a, b, c, d) ← cast4 (← j.getObjVal? "thunk")
    pure (.thunk a b c d (← getStrs (← j.getObjVal? "keys")))

def decFields (j : Json) : Except String FieldsE :=
  match j with
  | .str _ => pure .emptyConst
  | _ => do pure (.thunk (← decPairs decFE (← j.getObjVal? "thunk")))

def decInFields (j : Json) : Except String InFieldsE :=
  match j with
  | .str _ => pure .emptyConst
  | _ => do pure (.thunk (← decPairs decAE (← j.getObjVal? "thunk")))

def decEV (j : Json) : Except String EnumValE := do
  pure { ctor := ← (← j.getObjVal? "ctor").getStr?, value := ← decCE (← j.getObjVal? "value"),
         description := ← decCE (← j.getObjVal? "description"), deprecation := ← decCE (← j.getObjVal? "deprecation") }

def decTE (j : Json) : Except String TypeE := do
  let t ← (← j.getObjVal? "t").getStr?
  let c ← (← j.getObjVal? "ctor").getStr?
  let n ← decCE (← j.getObjVal? "name")
  let d ← decCE (← j.getObjVal? "description")
  match t with
  | "scalar" => pure (.scalar c n d (← decCE (← j.getObjVal? "specifiedBy")))
  | "composite" => pure (.composite c n d (← decNames (← j.getObjVal? "interfaces")) (← decFields (← j.getObjVal? "fields")))
  | "union" => pure (.union c n d (← decNames (← j.getObjVal? "types")))
  | "enum" => pure (.enum c n d (← decPairs decEV (← j.getObjVal? "values")))
  | "input" => pure (.input c n d (← decInFields (← j.getObjVal? "fields")))
  | _ => throw s!"type expr {t}"

def decRootE (j : Json) : Except String RootE :=
  match j with
  | .null => pure .none
  | _ => do
    let (a, b, c, d) ← cast4 (← j.getObjVal? "cast")
    pure (.cast a b c d)

def decDE (j : Json) : Except String DirectiveE := do
  let locs ← decList (fun l => do
    match ← getStrs l with
    | [a, b] => pure (a, b)
    | _ => throw "location pair") (← j.getObjVal? "locations")
  let args ← match ← j.getObjVal? "args" with
    | .null => pure none
    | a => do pure (some (← decPairs decAE a))
  pure { ctor := ← (← j.getObjVal? "ctor").getStr?, name := ← decCE (← j.getObjVal? "name"),
         description := ← decCE (← j.getObjVal? "description"), repeatable := ← decCE (← j.getObjVal? "repeatable"),
         locations := locs, args := args }

def decSE (j : Json) : Except String SchemaE := do
  pure { ctor := ← (← j.getObjVal? "ctor").getStr?, query := ← decRootE (← j.getObjVal? "query"),
         mutation := ← decRootE (← j.getObjVal? "mutation"), subscription := ← decRootE (← j.getObjVal? "subscription"),
         typesTm := ← (← j.getObjVal? "typesTm").getStr?, directives := ← decList decDE (← j.getObjVal? "directives"),
         description := ← decCE (← j.getObjVal? "description") }

def decModule (j : Json) : Except String PyModuleIR := do
  let imports ← decList (fun i => do
    pure ({ module := ← (← i.getObjVal? "module").getStr?, names := ← getStrs (← i.getObjVal? "names") } : ImportE))
    (← j.getObjVal? "imports")
  pure { imports := imports, tmName := ← (← j.getObjVal? "tmName").getStr?, tmAnn := ← (← j.getObjVal? "tmAnn").getStr?,
         typeMap := ← decPairs decTE (← j.getObjVal? "typeMap"), svName := ← (← j.getObjVal? "svName").getStr?,
         svAnn := ← (← j.getObjVal? "svAnn").getStr?, schema := ← decSE (← j.getObjVal? "schema") }

def encEvalResult : Except PyErr SchemaIR → Json
  | .ok S => Json.mkObj [("ok", encSchema S)]
  | .error e => Json.mkObj [("err", .str e.className)]

def handle (j : Json) : Except String Json := do
  let op ← Wire.fieldStr j "op"
  match op with
  | "gen" =>
    let S ← decSchema (← j.getObjVal? "schema")
    let tm ← Wire.fieldStr j "tm"
    let sv ← Wire.fieldStr j "sv"
    let m := gen S tm sv
    let r := evalSchemaModule m sv
    let rt : String := match r with
      | .ok S' => if encSchema S' == encSchema S then "ok-equal" else "ok-differs"
      | .error e => "error:" ++ e.className
    pure (Json.mkObj [("module", encModule m), ("pruned", encImports (prunedImports m)),
      ("wf", .bool (SchemaWF.wf S)), ("trigOneOf", .bool (SchemaWF.trigOneOf S)),
      ("trigShadow", .bool (SchemaWF.trigShadow tm)), ("roundtrip", .str rt),
      ("final_sv", .str (reprStr (finalBinding m sv))), ("final_tm", .str (reprStr (finalBinding m tm))),
      ("typeMapOrder", strs (GqlCollect.typeMapOrder S)),
      ("typeMapOrderFrom", match j.getObjVal? "types_arg" with
        | .ok a => (match getStrs a with
          | .ok ts => strs (GqlCollect.typeMapOrderFrom ts S)
          | .error _ => .null)
        | .error _ => .null)])
  | "eval" =>
    let m ← decModule (← j.getObjVal? "module")
    let sv ← Wire.fieldStr j "sv"
    pure (encEvalResult (evalSchemaModule m sv))
  | "dispatch" =>
    let p ← Wire.fieldStr j "path"
    pure (match dispatch p with
      | .ok .py => Json.mkObj [("ok", "py"), ("format", .str (targetFileFormat p))]
      | .ok .sdl => Json.mkObj [("ok", "sdl"), ("format", .str (targetFileFormat p))]
      | .error .missingFileType => Json.mkObj [("err", "missing")]
      | .error .invalidFileType => Json.mkObj [("err", "invalid")])
  | "repr" =>
    let v ← decPV (← j.getObjVal? "v")
    pure (Json.mkObj [("text", .str (PyRepr.pyRepr v)), ("finite", .bool (SchemaWF.finitePV v))])
  | "read" =>
    let t ← Wire.fieldStr j "text"
    pure (match PyLiteral.readCExpr t.toList with
      | some c => Json.mkObj [("ok", encCE c)]
      | none => Json.mkObj [("none", .bool true)])
  | _ => throw s!"unknown op {op}"

end C16Drv

def main : IO Unit := Ariadne.Wire.loop C16Drv.handle
