/- Line-protocol driver for C13: runs the *models* of `execute_ws` (plain and OpenTelemetry) on the
   harness's inputs, against the regenerated tables.  Also prints the protocol letter of every
   frame and the finding triggers (Spec/GraphqlTransportWs.lean), so that the harness can compare
   them with its Python twins. -/
import AriadneModel.Driver.Wire
import AriadneModel.Generated.Tables
import AriadneModel.Model.WsClient
import AriadneModel.Model.WsClientOT
import AriadneModel.Model.SubscriptionMethod
import AriadneModel.Spec.GraphqlTransportWs
import AriadneModel.Spec.WsConnect

open Lean (Json)
open Ariadne Ariadne.Wire Ariadne.WsClient

partial def decPV (j : Json) : Except String PV := do
  let a ← j.getArr?
  let tag ← (a[0]?.getD Json.null).getStr?
  let arg := a[1]?.getD Json.null
  match tag with
  | "null" => pure .null
  | "bool" => pure (.bool (← arg.getBool?))
  | "num" => match arg with
    | .num n => pure (.num n.mantissa n.exponent)
    | _ => throw "num expected"
  | "str" => pure (.str (← arg.getStr?))
  | "unset" => pure .unset
  | "model" => pure (.model (← dec arg))
  | "list" => do
    let xs ← arg.getArr?
    pure (.list (← xs.toList.mapM decPV))
  | "dict" => pure (.dict (← decPVKvs arg))
  | t => throw s!"PV tag {t}"
where
  decPVKvs (j : Json) : Except String (List (String × PV)) := do
    let items ← j.getArr?
    items.toList.mapM fun it => do
      let pr ← it.getArr?
      let k ← (pr[0]?.getD Json.null).getStr?
      let v ← decPV (pr[1]?.getD Json.null)
      pure (k, v)

def decKvs (j : Json) : Except String (List (String × J)) := do
  match ← dec j with
  | .obj kvs => pure kvs
  | _ => throw "object expected"

def optStrField (j : Json) (k : String) : Except String (Option String) :=
  match j.getObjVal? k with
  | .ok (.str s) => pure (some s)
  | .ok .null => pure none
  | .ok _ => throw s!"{k}: string or null expected"
  | .error _ => pure none

def decCfg (j : Json) : Except String Cfg := do
  let url ← fieldStr j "url"
  let headers ← decKvs (← field j "headers")
  let origin ← optStrField j "origin"
  let initPayload ← match j.getObjVal? "init" with
    | .ok v => do pure (some (← dec v))
    | .error _ => pure none
  let query ← fieldStr j "query"
  let opName ← optStrField j "opName"
  let extraHeaders ← match j.getObjVal? "extraHeaders" with
    | .ok v => do pure (some (← decKvs v))
    | .error _ => pure none
  let kwargs ← decKvs (← field j "kwargs")
  let opId ← fieldStr j "opId"
  pure { url, headers, origin, initPayload, query, opName, extraHeaders, kwargs, opId }

def decFrame (j : Json) : Except String Frame := do
  let t ← fieldStr j "t"
  match t with
  | "text" => pure (.text (← fieldStr j "s"))
  | "bytes" => pure .badBytes
  | "json" => pure (.json (← fieldJ j "j"))
  | _ => throw s!"frame tag {t}"

def encErr (g : GetData.GqlErr) : Json :=
  Json.mkObj [("message", enc g.message), ("locations", enc g.locations), ("path", enc g.path),
    ("extensions", enc g.extensions), ("original", enc g.original)]

def encOutcome : Outcome → Json
  | .completed => Json.mkObj [("o", "completed")]
  | .exhausted => Json.mkObj [("o", "exhausted")]
  | .invalidMessage .message => Json.mkObj [("o", "invalid"), ("arg", "frame")]
  | .invalidMessage (.expected v) => Json.mkObj [("o", "invalid"), ("arg", "expected"), ("value", v)]
  | .multiError gs d => Json.mkObj [("o", "multi"), ("errors", Json.arr (gs.map encErr).toArray), ("data", enc d)]
  | .internal x => Json.mkObj [("o", "internal"), ("exc", x)]

def encEvents (t : Types) (evs : List Ev) : List Json :=
  let rec go (i : Nat) : List Ev → List Json
    | [] => []
    | .connect a :: rest =>
      Json.arr #["connect", Json.mkObj [("url", a.url), ("subprotocols", Json.arr (a.subprotocols.map Json.str).toArray),
        ("origin", enc a.origin), ("extra_headers", enc (.obj a.extraHeaders)), ("kwargs", enc (.obj a.kwargs))]] :: go i rest
    | .send m :: rest => Json.arr #["send", enc (m.render t)] :: go i rest
    | .recv _ :: rest => Json.arr #["recv", i] :: go (i + 1) rest
    | .yield d :: rest => Json.arr #["yield", enc d] :: go i rest
    | .close :: rest => Json.arr #["close"] :: go i rest
  go 0 evs

def handleLine (j : Json) : Except String Json := do
  let op ← fieldStr j "op"
  match op with
  | "run" =>
    let client ← fieldStr j "client"
    let tracer ← match j.getObjVal? "tracer" with
      | .ok v => v.getBool?
      | .error _ => pure false
    let cfg ← decCfg (← field j "cfg")
    let vars ← match j.getObjVal? "vars" with
      | .ok .null => pure none
      | .ok v => do pure (some (← decPV.decPVKvs v))
      | .error _ => pure none
    let frames ← (← (← field j "frames").getArr?).toList.mapM decFrame
    let (tbl, tr) := match client with
      | "ot" => (Tables.wsTypesAsyncOT, WsClientOT.run tracer Tables.wsTypesAsyncOT Tables.wsSubprotocolAsyncOT cfg vars frames)
      | _ => (Tables.wsTypesAsync, WsClient.run Tables.wsTypesAsync Tables.wsSubprotocolAsync cfg vars frames)
    -- rendering of sent messages uses the same extracted table as the model run
    let t := (Types.ofTable tbl).getD GqlWs.proto
    let connectAccepted := match tr.events.filterMap Ev.connect? with
      | a :: _ => Json.bool (WsConnect.accepts a)
      | [] => Json.null
    pure (Json.mkObj [
      ("events", Json.arr (encEvents t tr.events).toArray),
      ("outcome", encOutcome tr.outcome),
      ("letters", Json.arr (frames.map fun f => Json.str (GqlWs.letter f).name).toArray),
      ("trig", Json.mkObj [
        ("falsyNextData", GqlWs.trigFalsyNextData cfg vars frames),
        ("binaryNotUtf8", GqlWs.trigBinaryNotUtf8 cfg vars frames),
        ("extraHeadersKwarg", GqlWs.trigExtraHeadersKwarg cfg)]),
      ("connect_accepted", connectAccepted)])
  | "method" =>
    let client ← fieldStr j "client"
    let tracer ← match j.getObjVal? "tracer" with
      | .ok v => v.getBool?
      | .error _ => pure false
    let cfg ← decCfg (← field j "cfg")
    let params ← (← (← field j "params").getArr?).toList.mapM (·.getStr?)
    let dict ← (← (← field j "dict").getArr?).toList.mapM fun it => do
      let pr ← it.getArr?
      pure ((← (pr[0]?.getD Json.null).getStr?), (← (pr[1]?.getD Json.null).getStr?))
    let opName ← fieldStr j "opName"
    let opText ← fieldStr j "opText"
    let args ← decPV.decPVKvs (← field j "args")
    let frames ← (← (← field j "frames").getArr?).toList.mapM decFrame
    let b := SubMethod.emit params dict opName
    let (tbl, exec) : List (String × String) × (Cfg → Option (List (String × PV)) → List Frame → Trace) :=
      match client with
      | "ot" => (Tables.wsTypesAsyncOT, WsClientOT.run tracer Tables.wsTypesAsyncOT Tables.wsSubprotocolAsyncOT)
      | _ => (Tables.wsTypesAsync, WsClient.run Tables.wsTypesAsync Tables.wsSubprotocolAsync)
    let tr := SubMethod.runMethodWith exec cfg b opText params args frames
    let t := (Types.ofTable tbl).getD GqlWs.proto
    pure (Json.mkObj [
      ("body", Json.mkObj [("queryTarget", b.queryTarget), ("varsTarget", b.varsTarget), ("loopTarget", b.loopTarget),
        ("callQuery", b.callQuery), ("callVars", b.callVars), ("callKwargs", b.callKwargs), ("yieldArg", b.yieldArg),
        ("opName", b.opName)]),
      ("events", Json.arr (encEvents t tr.events).toArray),
      ("outcome", encOutcome tr.outcome)])
  | "accepts" =>
    let names ← (← (← field j "names").getArr?).toList.mapM (·.getStr?)
    pure (Json.bool (WsConnect.acceptsNames Tables.wsConnectAccepted names))
  | _ => throw s!"unknown op {op}"

def main : IO Unit := Ariadne.Wire.loop handleLine
