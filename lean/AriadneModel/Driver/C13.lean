/- Line-protocol driver for C13: runs the *models* of `execute_ws` (plain and OpenTelemetry) on the
   harness's inputs, against the regenerated tables.  Also prints the protocol letter of every
   frame and the finding triggers (Spec/GraphqlTransportWs.lean), so that the harness can compare
   them with its Python twins. -/
import AriadneModel.Driver.Wire
import AriadneModel.Generated.Tables
import AriadneModel.Model.WsClient
import AriadneModel.Model.WsClientOT
import AriadneModel.Model.SubscriptionMethod
import AriadneModel.Model.WsClientHeap
import AriadneModel.Spec.GraphqlTransportWs
import AriadneModel.Spec.WsConnect

open Lean (Json)
open Ariadne Ariadne.Wire Ariadne.WsClient

partial def decPV (j : Json) : Except String PV := do
  let a ← j.getArr?
  let tag ← (a[0]?.getD Json.null).getStr?
  let arg := a[1]?.getD Json.null
  match tag with
  | "null" => pure .null
  | "bool" => pure (.bool (← arg.getBool?))
  | "num" => match arg with
    | .num n => pure (.num n.mantissa n.exponent)
    | _ => throw "num expected"
  | "str" => pure (.str (← arg.getStr?))
  | "unset" => pure .unset
  | "model" => pure (.model (← dec arg))
  | "list" => do
    let xs ← arg.getArr?
    pure (.list (← xs.toList.mapM decPV))
  | "dict" => pure (.dict (← decPVKvs arg))
  | "foreign" => match arg with
    | .null => pure (.foreign none)
    | v => do pure (.foreign (some (← dec (v.getObjValD "j"))))
  | "modelPy" => pure (.modelPy (← decPVKvs arg))
  | t => throw s!"PV tag {t}"
where
  decPVKvs (j : Json) : Except String (List (String × PV)) := do
    let items ← j.getArr?
    items.toList.mapM fun it => do
      let pr ← it.getArr?
      let k ← (pr[0]?.getD Json.null).getStr?
      let v ← decPV (pr[1]?.getD Json.null)
      pure (k, v)

def decKvs (j : Json) : Except String (List (String × J)) := do
  match ← dec j with
  | .obj kvs => pure kvs
  | _ => throw "object expected"

def optStrField (j : Json) (k : String) : Except String (Option String) :=
  match j.getObjVal? k with
  | .ok (.str s) => pure (some s)
  | .ok .null => pure none
  | .ok _ => throw s!"{k}: string or null expected"
  | .error _ => pure none

def decCfg (j : Json) : Except String Cfg := do
  let url ← fieldStr j "url"
  let headers ← decKvs (← field j "headers")
  let origin ← optStrField j "origin"
  let initPayload ← match j.getObjVal? "init" with
    | .ok v => do pure (some (← dec v))
    | .error _ => pure none
  let query ← fieldStr j "query"
  let opName ← optStrField j "opName"
  let extraHeaders ← match j.getObjVal? "extraHeaders" with
    | .ok v => do pure (some (← decKvs v))
    | .error _ => pure none
  let kwargs ← decKvs (← field j "kwargs")
  let opId ← fieldStr j "opId"
  pure { url, headers, origin, initPayload, query, opName, extraHeaders, kwargs, opId }

def decFrame (j : Json) : Except String Frame := do
  let t ← fieldStr j "t"
  match t with
  | "text" => pure (.text (← fieldStr j "s"))
  | "bytes" => pure .badBytes
  | "json" => pure (.json (← fieldJ j "j"))
  | _ => throw s!"frame tag {t}"

def encErr (g : GetData.GqlErr) : Json :=
  Json.mkObj [("message", enc g.message), ("locations", enc g.locations), ("path", enc g.path),
    ("extensions", enc g.extensions), ("original", enc g.original)]

def encOutcome : Outcome → Json
  | .completed => Json.mkObj [("o", "completed")]
  | .exhausted => Json.mkObj [("o", "exhausted")]
  | .invalidMessage .message => Json.mkObj [("o", "invalid"), ("arg", "frame")]
  | .invalidMessage (.expected v) => Json.mkObj [("o", "invalid"), ("arg", "expected"), ("value", v)]
  | .multiError gs d => Json.mkObj [("o", "multi"), ("errors", Json.arr (gs.map encErr).toArray), ("data", enc d)]
  | .internal x => Json.mkObj [("o", "internal"), ("exc", x)]

def encEvents (t : Types) (evs : List Ev) : List Json :=
  let rec go (i : Nat) : List Ev → List Json
    | [] => []
    | .connect a :: rest =>
      Json.arr #["connect", Json.mkObj [("url", a.url), ("subprotocols", Json.arr (a.subprotocols.map Json.str).toArray),
        ("origin", enc a.origin), ("extra_headers", enc (.obj a.extraHeaders)), ("kwargs", enc (.obj a.kwargs))]] :: go i rest
    | .send m :: rest => Json.arr #["send", enc (m.render t)] :: go i rest
    | .recv _ :: rest => Json.arr #["recv", i] :: go (i + 1) rest
    | .yield d :: rest => Json.arr #["yield", enc d] :: go i rest
    | .close :: rest => Json.arr #["close"] :: go i rest
  go 0 evs

def optNatField (j : Json) (k : String) : Except String (Option Nat) :=
  match j.getObjVal? k with
  | .ok .null => pure none
  | .ok v => do pure (some (← v.getNat?))
  | .error _ => pure none

def decVars (j : Json) : Except String (Option (List (String × PV))) :=
  match j.getObjVal? "vars" with
  | .ok .null => pure none
  | .ok v => do pure (some (← decPV.decPVKvs v))
  | .error _ => pure none

open Ariadne.WsHeap in
def decStep (j : Json) : Except String Step := do
  let query ← fieldStr j "query"
  let opName ← optStrField j "opName"
  let extraHeaders ← optNatField j "extra"
  let kwargs ← decKvs (← field j "kwargs")
  let opId ← fieldStr j "opId"
  let call : HCall := { query, opName, extraHeaders, kwargs, opId }
  let frames ← (← (← field j "frames").getArr?).toList.mapM decFrame
  let vars ← decVars j
  let refuse ← optStrField j "refuse"
  let take ← optNatField j "take"
  pure { call, vars, frames, refuse, take }

open Ariadne.WsHeap in
/-- a session entry: a subscription, or `{"edit": kind, ...}` = what the owner does to the client in between -/
def decAction (j : Json) : Except String Action := do
  match j.getObjVal? "edit" with
  | .ok (.str k) =>
    match k with
    | "init" => pure (.edit (.setInit (← optNatField j "to")))
    | "headers" => pure (.edit (.setHeaders (← fieldNat j "to")))
    | "origin" => pure (.edit (.setOrigin (← optStrField j "to")))
    | "url" => pure (.edit (.setUrl (← fieldStr j "to")))
    | "write" => pure (.edit (.write (← fieldNat j "at") (← decKvs (← field j "value"))))
    | _ => throw s!"edit kind {k}"
  | _ => pure (.sub (← decStep j))

open Ariadne.WsHeap in
def encObs (t : Types) : Option Obs → Json
  | none => Json.null
  | some o => Json.mkObj [
      ("events", Json.arr (encEvents t o.events).toArray),
      ("outcome", match o.outcome with | some oc => encOutcome oc | none => Json.mkObj [("o", "abandoned")]),
      ("release", match o.release with | .notOpened => "not-opened" | .sync => "sync" | .deferred => "deferred")]

open Ariadne.WsHeap in
/-- the client under test: variant, executor over the extracted tables, table for rendering -/
def variantOf (client : String) (tracer : Bool) :
    Variant × (Cfg → Option (List (String × PV)) → List Frame → Trace) × List (String × String) :=
  match client with
  | "ot" => (.ot tracer, WsClientOT.run tracer Tables.wsTypesAsyncOT Tables.wsSubprotocolAsyncOT, Tables.wsTypesAsyncOT)
  | _ => (.plain, WsClient.run Tables.wsTypesAsync Tables.wsSubprotocolAsync, Tables.wsTypesAsync)

def handleLine (j : Json) : Except String Json := do
  let op ← fieldStr j "op"
  match op with
  | "run" =>
    let client ← fieldStr j "client"
    let tracer ← match j.getObjVal? "tracer" with
      | .ok v => v.getBool?
      | .error _ => pure false
    let cfg ← decCfg (← field j "cfg")
    let vars ← decVars j
    let frames ← (← (← field j "frames").getArr?).toList.mapM decFrame
    let (tbl, tr) := match client with
      | "ot" => (Tables.wsTypesAsyncOT, WsClientOT.run tracer Tables.wsTypesAsyncOT Tables.wsSubprotocolAsyncOT cfg vars frames)
      | _ => (Tables.wsTypesAsync, WsClient.run Tables.wsTypesAsync Tables.wsSubprotocolAsync cfg vars frames)
    -- rendering of sent messages uses the same extracted table as the model run
    let t := (Types.ofTable tbl).getD GqlWs.proto
    let connectAccepted := match tr.events.filterMap Ev.connect? with
      | a :: _ => Json.bool (WsConnect.accepts a)
      | [] => Json.null
    pure (Json.mkObj [
      ("events", Json.arr (encEvents t tr.events).toArray),
      ("outcome", encOutcome tr.outcome),
      ("letters", Json.arr (frames.map fun f => Json.str (GqlWs.letter f).name).toArray),
      ("trig", Json.mkObj [
        ("falsyNextData", GqlWs.trigFalsyNextData cfg vars frames),
        ("binaryNotUtf8", GqlWs.trigBinaryNotUtf8 cfg vars frames),
        ("varsNeedJsonableDefault", GqlWs.trigVarsNeedJsonableDefault cfg vars frames),
        ("extraHeadersKwarg", GqlWs.trigExtraHeadersKwarg cfg)]),
      ("connect_accepted", connectAccepted)])
  | "method" =>
    let client ← fieldStr j "client"
    let tracer ← match j.getObjVal? "tracer" with
      | .ok v => v.getBool?
      | .error _ => pure false
    let cfg ← decCfg (← field j "cfg")
    let params ← (← (← field j "params").getArr?).toList.mapM (·.getStr?)
    let dict ← (← (← field j "dict").getArr?).toList.mapM fun it => do
      let pr ← it.getArr?
      pure ((← (pr[0]?.getD Json.null).getStr?), (← (pr[1]?.getD Json.null).getStr?))
    let opName ← fieldStr j "opName"
    let opText ← fieldStr j "opText"
    let args ← decPV.decPVKvs (← field j "args")
    let frames ← (← (← field j "frames").getArr?).toList.mapM decFrame
    let b := SubMethod.emit params dict opName
    let (tbl, exec) : List (String × String) × (Cfg → Option (List (String × PV)) → List Frame → Trace) :=
      match client with
      | "ot" => (Tables.wsTypesAsyncOT, WsClientOT.run tracer Tables.wsTypesAsyncOT Tables.wsSubprotocolAsyncOT)
      | _ => (Tables.wsTypesAsync, WsClient.run Tables.wsTypesAsync Tables.wsSubprotocolAsync)
    let tr := SubMethod.runMethodWith exec cfg b opText params args frames
    let t := (Types.ofTable tbl).getD GqlWs.proto
    pure (Json.mkObj [
      ("body", Json.mkObj [("queryTarget", b.queryTarget), ("varsTarget", b.varsTarget), ("loopTarget", b.loopTarget),
        ("callQuery", b.callQuery), ("callVars", b.callVars), ("callKwargs", b.callKwargs), ("yieldArg", b.yieldArg),
        ("opName", b.opName)]),
      ("yieldValue", match SubMethod.yieldValue b (SubMethod.initEnv params args) with
        | some .item => "item" | some (.arg _) => "arg" | none => "NameError" | some _ => "other"),
      ("events", Json.arr (encEvents t tr.events).toArray),
      ("outcome", encOutcome tr.outcome)])
  | "session" | "schedule" =>
    -- one client object, many subscriptions sharing dict objects (Model/WsClientHeap.lean)
    let client ← fieldStr j "client"
    let tracer ← match j.getObjVal? "tracer" with
      | .ok v => v.getBool?
      | .error _ => pure false
    let store ← (← (← field j "store").getArr?).toList.mapM decKvs
    let c ← field j "ctor"
    let wsUrl ← fieldStr c "wsUrl"
    let wsHeaders ← optNatField c "headers"
    let wsOrigin ← optStrField c "origin"
    let initPayload ← optNatField c "init"
    let ctor : WsHeap.CtorArgs := { wsUrl, wsHeaders, wsOrigin, initPayload }
    let acts ← (← (← field j "steps").getArr?).toList.mapM decAction
    let steps := acts.filterMap fun a => match a with | .sub st => some st | .edit _ => none
    let (v, exec, tbl) := variantOf client tracer
    let t := (Types.ofTable tbl).getD GqlWs.proto
    match WsHeap.construct store ctor with
    | none => pure (Json.mkObj [("ill_formed", "constructor")])
    | some (s0, cl) =>
      let (sEnd, clEnd, obs) : WsHeap.Store × WsHeap.ClientObj × List (Option WsHeap.Obs) :=
        if op == "session" then WsHeap.runActs v exec s0 cl acts
        else
          let sched := match (j.getObjVal? "sched") with
            | .ok (.arr a) => a.toList.filterMap fun x => x.getNat?.toOption
            | _ => []
          let w := WsHeap.runSchedule v exec (WsHeap.startW s0 cl steps) sched
          (w.store, w.client, w.tasks.map fun ph => match ph with | .done o => o | _ => none)
      pure (Json.mkObj [
        ("client", Json.mkObj [("wsHeaders", cl.wsHeaders), ("fresh", Json.bool (cl.wsHeaders ≥ store.length)),
          ("after", Json.mkObj [("wsHeaders", clEnd.wsHeaders), ("url", clEnd.url),
            ("origin", match clEnd.origin with | some o => Json.str o | none => Json.null),
            ("init", match clEnd.initPayload with | some p => (p : Json) | none => Json.null)])]),
        ("known", s0.length),
        ("store", Json.arr ((sEnd.take s0.length).map fun o => enc (.obj o)).toArray),
        ("obs", Json.arr (obs.map (encObs t)).toArray)])
  | "accepts" =>
    let names ← (← (← field j "names").getArr?).toList.mapM (·.getStr?)
    pure (Json.bool (WsConnect.acceptsNames Tables.wsConnectAccepted names))
  | _ => throw s!"unknown op {op}"

def main : IO Unit := Ariadne.Wire.loop handleLine
