/- Line-protocol driver for C06: runs Model/InputField + Model/InputSource (class IR and triggers for a
   schema built from SDL or obtained by introspection: `"mode"`), Model/InputDeps (`module`: class
   selection and enum import of `generate(types_to_include)`), Spec/CoerceInput (coerce_input_value /
   value_from_ast / default_value) and Spec/PydInput (construct, readback, dump; on the module of the
   given source and selection) on the harness's inputs.  Driver glue, no theorems.  The decoders of definitions/literals are the
   same wire format as Driver/C19.lean (`defs`). -/
import AriadneModel.Driver.Wire
import AriadneModel.Model.InputField
import AriadneModel.Spec.CoerceInput
import AriadneModel.Spec.PydInput
import AriadneModel.Model.InputRel
import AriadneModel.Model.InputDeps
import AriadneModel.Model.InputWf

open Lean (Json)
open Ariadne Ariadne.Wire

namespace C06Driver
open Ariadne.InputGen (TypeRef Lit PyExpr InputField TypeDef Mode)
open Ariadne.InputField Ariadne.CoerceInput Ariadne.PydInput Ariadne.InputSource Ariadne.InputDeps

def getList (j : Json) (k : String) : Except String (List Json) := do
  let a ← (← j.getObjVal? k).getArr?
  pure a.toList

partial def decTypeRef (j : Json) : Except String TypeRef := do
  let a ← j.getArr?
  if h : a.size = 2 then
    let tag ← a[0].getStr?
    match tag with
    | "named" => pure (.named (← a[1].getStr?))
    | "list" => pure (.list (← decTypeRef a[1]))
    | "nonnull" => pure (.nonNull (← decTypeRef a[1]))
    | _ => throw s!"typeref tag {tag}"
  else throw "typeref"

partial def decLit (j : Json) : Except String Lit := do
  let k ← fieldStr j "k"
  match k with
  | "int" => pure (.int (← (← j.getObjVal? "v").getInt?))
  | "float" => pure (.float (← fieldStr j "v"))
  | "str" => pure (.str (← fieldStr j "v"))
  | "bool" => pure (.bool (← fieldBool j "v"))
  | "null" => pure .null
  | "enum" => pure (.enum (← fieldStr j "v"))
  | "list" => do
    let xs ← (← getList j "v").mapM decLit
    pure (.list xs)
  | "obj" => do
    let xs ← (← getList j "v").mapM fun it => do
      let pr ← it.getArr?
      if h : pr.size = 2 then pure (← pr[0].getStr?, ← decLit pr[1]) else throw "obj pair"
    pure (.obj xs)
  | _ => throw s!"lit kind {k}"

def decField (j : Json) : Except String InputField := do
  let d ← match j.getObjVal? "default" with
    | .ok .null => pure none
    | .ok v => do pure (some (← decLit v))
    | .error _ => pure none
  let dep := match j.getObjVal? "deprecated" with
    | .ok (.bool b) => b
    | _ => false
  pure ⟨← fieldStr j "name", ← decTypeRef (← field j "type"), d, dep⟩

/-- `"mode"`: absent / `"sdl"` = schema built from SDL; `"intro"` = obtained by introspection
    (`"ivd"`: did the query ask for deprecated input values; default true) -/
def decMode (j : Json) : Except String Mode := do
  match j.getObjVal? "mode" with
  | .ok (.str "intro") =>
    let ivd := match j.getObjVal? "ivd" with
      | .ok (.bool b) => b
      | _ => true
    pure (.intro ivd)
  | _ => pure .sdl

/-- `"roots"`: absent / null = `generate()`; a list = `generate(types_to_include=…)` -/
def decRoots (j : Json) : Except String (Option (List String)) := do
  match j.getObjVal? "roots" with
  | .ok (.arr a) => do
    let xs ← a.toList.mapM (·.getStr?)
    pure (some xs)
  | _ => pure none

def decDef (j : Json) : Except String TypeDef := do
  let k ← fieldStr j "kind"
  let n ← fieldStr j "name"
  match k with
  | "enum" => do
    let vs ← (← getList j "values").mapM (·.getStr?)
    pure (.enum n vs)
  | "input" => do
    let fs ← (← getList j "fields").mapM decField
    pure (.input n fs)
  | "scalar" => pure (.scalar n)
  | _ => pure (.composite n)

def decCfg (j : Json) : Except String Cfg := do
  let scs ← (← getList j "scalars").mapM fun s => do
    let ser ← match s.getObjVal? "serialize" with
      | .ok .null => pure none
      | .ok v => do pure (some (← v.getStr?))
      | .error _ => pure none
    pure (⟨← fieldStr s "name", ← fieldStr s "typeName", ser⟩ : ScalarCfg)
  pure ⟨← fieldBool j "snake", scs⟩

partial def encExpr : PyExpr → Json
  | .none => Json.mkObj [("e", "none")]
  | .int v => Json.mkObj [("e", "int"), ("v", Json.num ⟨v, 0⟩)]
  | .float x => Json.mkObj [("e", "float"), ("v", x)]
  | .str s => Json.mkObj [("e", "str"), ("v", s)]
  | .bool b => Json.mkObj [("e", "bool"), ("v", b)]
  | .name s => Json.mkObj [("e", "name"), ("v", s)]
  | .list xs => Json.mkObj [("e", "list"), ("v", Json.arr (xs.map encExpr).toArray)]
  | .dict kvs => Json.mkObj [("e", "dict"), ("v", Json.arr (kvs.map fun (k, v) => Json.arr #[.str k, encExpr v]).toArray)]
  | .fieldFactory b => Json.mkObj [("e", "field"), ("kw", Json.arr #[Json.arr #[.str "default_factory", Json.mkObj [("e", "lambda"), ("v", encExpr b)]]])]
  | .fieldFactoryModel t a => Json.mkObj [("e", "field"), ("kw", Json.arr #[Json.arr #[.str "default_factory",
      Json.mkObj [("e", "lambda"), ("v", Json.mkObj [("e", "modelValidate"), ("t", t), ("v", encExpr a)])]]])]

def kwPair (k : String) (v : Json) : Json := Json.arr #[.str k, v]

def encValue : Value → Json
  | .absent => Json.null
  | .expr e => encExpr e
  | .field a kw =>
    let rest : List Json := match kw with
      | .none => []
      | .default e => [kwPair "default" (encExpr e)]
      | .factory b => [kwPair "default_factory" (Json.mkObj [("e", "lambda"), ("v", encExpr b)])]
      | .factoryModel t x => [kwPair "default_factory"
          (Json.mkObj [("e", "lambda"), ("v", Json.mkObj [("e", "modelValidate"), ("t", t), ("v", encExpr x)])])]
    Json.mkObj [("e", "field"), ("kw", Json.arr (kwPair "alias" (Json.mkObj [("e", "str"), ("v", a)]) :: rest).toArray)]

def encDecl : Option FieldDecl → Json
  | none => Json.null
  | some d => Json.mkObj [("py", d.py), ("ann", d.ann.render), ("value", encValue d.value), ("required", d.required)]

def encClass (c : ClassDecl) : Json :=
  Json.mkObj [("name", c.name), ("fields", Json.arr (c.fields.map encDecl).toArray)]

def encTriggers (m : Mode) (cfg : Cfg) (defs : List TypeDef) : Json :=
  Json.arr (defs.filterMap fun
    | .input n fs =>
      let vis := InputGen.visibleFields m fs
      some (Json.mkObj [("name", n), ("trigNameDefect", trigNameDefect cfg.snake vis),
        ("fields", Json.arr (vis.map fun f => Json.mkObj ((("name", Json.str f.name) : String × Json) ::
          (fieldTriggersSrc m cfg defs f).map fun (k, b) => (k, Json.bool b))).toArray)])
    | _ => none).toArray

def encExcept (r : Except CErr J) : Json :=
  match r with
  | .ok j => Json.mkObj [("ok", enc j)]
  | .error _ => Json.mkObj [("err", true)]

partial def encPV : PV → Json
  | .none => Json.null
  | .bool b => Json.bool b
  | .num m e => Json.num ⟨m, e⟩
  | .str s => Json.str s
  | .enum c m v => Json.mkObj [("$enum", Json.arr #[.str c, .str m, .str v])]
  | .list xs => Json.arr (xs.map encPV).toArray
  | .dict kvs => Json.mkObj [("$dict", Json.arr (kvs.map fun (k, v) => Json.arr #[.str k, encPV v]).toArray)]
  | .model c fs set => Json.mkObj [("$model", c), ("fields", Json.arr (fs.map fun (k, v) => Json.arr #[.str k, encPV v]).toArray),
      ("set", Json.arr (set.map Json.str).toArray)]
  | .fieldInfo => Json.mkObj [("$fieldinfo", true)]

def encVErr : VErr → Json
  | .missing f => Json.mkObj [("err", "validation"), ("missing", f)]
  | .wrongType _ => Json.mkObj [("err", "validation")]
  | .unknownClass n => Json.mkObj [("err", "unknownClass"), ("cls", n)]
  | .defaultRaised (.attributeError _) => Json.mkObj [("err", "default:AttributeError")]
  | .defaultRaised (.keyError _) => Json.mkObj [("err", "default:KeyError")]
  | .defaultRaised .validation => Json.mkObj [("err", "default:ValidationError")]
  | .defaultRaised (.nameError _) => Json.mkObj [("err", "default:NameError")]
  | .defaultRaised _ => Json.mkObj [("err", "default:other")]
  | .importError => Json.mkObj [("err", "import")]

def decLax (j : Json) : Except String Lax := do
  let ints ← (← getList j "int").mapM fun it => do
    let pr ← it.getArr?
    if h : pr.size = 2 then pure (← pr[0].getStr?, ← pr[1].getInt?) else throw "lax pair"
  let floats ← (← getList j "float").mapM fun it => do
    let pr ← it.getArr?
    if h : pr.size = 2 then do
      let n ← pr[1].getNum?
      pure (← pr[0].getStr?, (n.mantissa, n.exponent))
    else throw "lax pair"
  let bools ← (← getList j "bool").mapM fun it => do
    let pr ← it.getArr?
    if h : pr.size = 2 then pure (← pr[0].getStr?, ← pr[1].getBool?) else throw "lax pair"
  pure ⟨fun s => ints.lookup s, fun s => floats.lookup s, fun s => bools.lookup s⟩

def decAcc (j : Json) : Except String (String → J → Bool) := do
  let rows ← (← getList j "acc").mapM fun it => do
    let pr ← it.getArr?
    if h : pr.size = 2 then pure (← pr[0].getStr?, ← dec pr[1]) else throw "acc pair"
  pure fun ty v => rows.any fun (t, x) => t == ty && x == v

def readbackField (env : Env) (c : ClassSpec) (f : CField) : Option Json :=
  match f.default, c.fields.find? (fun (sp : FieldSpec) => sp.key == f.name) with
  | some (.ok d), some sp =>
    some (Json.mkObj [("name", f.name), ("matches", match sp.default with
      | some (.ok pv) => Json.bool (pvMatches env pv d)
      | some (.error _) => Json.str "raises"
      | none => Json.str "required")])
  | _, _ => none

def readbackOf (env : Env) (s : CSchema) (cls : String) : List Json :=
  match env.class? cls, s.find? cls with
  | some c, some (.input _ fs) => fs.filterMap (readbackField env c)
  | _, _ => []

def handle (j : Json) : Except String Json := do
  let op ← fieldStr j "op"
  match op with
  | "classes" =>
    let cfg ← decCfg (← field j "cfg")
    let defs ← (← getList j "defs").mapM decDef
    let m ← decMode j
    pure (Json.mkObj [("classes", Json.arr ((classesSrc m cfg defs).map encClass).toArray),
      ("triggers", encTriggers m cfg defs), ("supported", supportedSrc m cfg defs),
      -- `WF_06`: the class for which `Proved_06` is a theorem (`C06.proved_06_of_wf`), evaluated on what the generator sees
      ("wf", InputWf.wf06 cfg (viewOf m defs)),
      ("related", InputRel.related (kindOf cfg defs) (mkSchema (visibleDefs m defs)) (mkEnvSrc m cfg defs (fun _ _ => false) Lax.none))])
  | "module" =>
    -- `InputTypesGenerator(schema).generate(types_to_include=roots)`: emitted class names, `from .enums import` list
    let cfg ← decCfg (← field j "cfg")
    let defs ← (← getList j "defs").mapM decDef
    let m ← decMode j
    let roots ← decRoots j
    match generate m cfg defs roots with
    | none => pure (Json.mkObj [("fuel", true)])
    | some mod =>
      pure (Json.mkObj [("names", Json.arr (mod.classes.map fun c => Json.str c.name).toArray),
        ("enumImport", Json.arr (mod.enumImport.map Json.str).toArray),
        ("parsingError", mod.classes.any fun c => c.fields.any Option.isNone)])
  | "coerce" =>
    let defs ← (← getList j "defs").mapM decDef
    let t ← decTypeRef (← field j "type")
    let v ← fieldJ j "value"
    pure (encExcept (coerce (mkSchema defs) t v))
  | "coerceLit" =>
    let defs ← (← getList j "defs").mapM decDef
    let t ← decTypeRef (← field j "type")
    let l ← decLit (← field j "lit")
    pure (encExcept (coerceLit (mkSchema defs) t l))
  | "defaults" =>
    let defs ← (← getList j "defs").mapM decDef
    let s := mkSchema defs
    pure (Json.arr (s.types.filterMap fun
      | .input n fs => some (Json.mkObj [("name", n), ("fields", Json.arr (fs.map fun f =>
          Json.mkObj [("name", f.name), ("default", match f.default with | none => Json.null | some r => encExcept r)]).toArray)])
      | _ => none).toArray)
  | "construct" =>
    let cfg ← decCfg (← field j "cfg")
    let defs ← (← getList j "defs").mapM decDef
    let lax ← decLax (← field j "lax")
    let acc ← decAcc j
    let m ← decMode j
    let roots ← decRoots j
    let env := mkEnvSrc m cfg (emittedDefs m cfg defs roots) acc lax
    let cls ← fieldStr j "cls"
    let vals ← (← getList j "values").mapM dec
    pure (Json.arr (vals.map fun v =>
      match construct env cls v with
      | .ok pv => Json.mkObj [("ok", encPV pv), ("dump", enc (dump env pv))]
      | .error e => encVErr e).toArray)
  | "readback" =>
    -- for every field of `cls` with a schema default: does the evaluated Python default match the coerced schema default?
    let cfg ← decCfg (← field j "cfg")
    let defs ← (← getList j "defs").mapM decDef
    let m ← decMode j
    let roots ← decRoots j
    let env := mkEnvSrc m cfg (emittedDefs m cfg defs roots) (fun _ _ => false) Lax.none
    let s := mkSchema (visibleDefs m defs)
    let cls ← fieldStr j "cls"
    let out := readbackOf env s cls
    pure (Json.mkObj [("broken", env.broken), ("fields", Json.arr out.toArray)])
  | _ => throw s!"unknown op {op}"

end C06Driver

def main : IO Unit := Ariadne.Wire.loop C06Driver.handle
