import AriadneModel.Model.InputRel
open Ariadne Ariadne.InputGen Ariadne.InputField Ariadne.CoerceInput Ariadne.PydInput Ariadne.InputRel

def wDefs : List TypeDef := [.input "In" [⟨"l", .nonNull (.list (.named "Int")), none, false⟩]]
def wCfg : Cfg := ⟨true, []⟩
def wS : CSchema := mkSchema wDefs
def wEnv : Env := mkEnv wCfg wDefs (fun _ _ => false) Lax.none
def wValue : J := .obj [("l", .arr [.num 1 0, .null])]

set_option maxRecDepth 100000 in
example : isOk (coerce wS (.named "In") wValue) = true := by decide
set_option maxRecDepth 100000 in
example : isOk (construct wEnv "In" wValue) = false := by decide
