import AriadneModel.Model.InputGen
import AriadneModel.Model.SchemaLoad
open Ariadne Ariadne.InputGen Ariadne.SchemaLoad
example : ("In" == "Int") = false := by decide
example : Tables.sourceSensitiveUses.all (fun u => [("a","b","c")].contains u) = false := by decide +kernel
example : suffix "a.graphql" = ".graphql" := by decide +kernel
example : isGraphqlName "a.gql" = true := by decide +kernel
example : kindOf [.input "In" []] "Int" = .scalar "int" := by decide +kernel
